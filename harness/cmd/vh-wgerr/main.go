// vh-wgerr binds spec/pipeline/{ErrContract,WgErrCtl,WgErrTrace}.tla to the worker groups of
// tychoish/fun with FAILING user functions: property C03 (worker-group error contract:
// nothing lost, nothing leaked, abort stops).
//
//	vh-wgerr replay   < behaviours.ndjson   controllable schedules printed by TLC from WgErrCtl.tla
//	vh-wgerr classify < cells.ndjson        the option x kind matrix printed by TLC from ErrContractMC.tla,
//	                                        replayed on the real recover wrappers + CanContinueOnError
//	vh-wgerr record N SEED                  free-running runs (no gates), histories for WgErrTrace.tla
//
// Constructs: pp (Iterator.ProcessParallel(...).Run), pfe (itertool.ParallelForEach), worker
// (itertool.Worker over an iterator of fun.Worker functions), map (fun.Map, output drained to its
// end, then Close()), gen (Producer.GenerateParallel, likewise).
//
// The user function of item i is ours: it logs cb_enter (with the goroutine it runs on), waits at
// the gate of item i, logs cb_exit, and then returns / panics as the script says.  Every step of a
// schedule is followed by "run to quiescence" (rt.Quiesce, twice in agreement); nothing is ever
// judged by elapsed time.  All expectations (which failure must be reported / must never be found /
// must be continued after / must abort, the abort bound, exactly-once) are printed by TLC with the
// behaviour; this program only folds them over the failures that actually occurred and compares.
// It also returns the recorded history of every replay, which TLC judges once more against
// WgErrTrace.tla.
//
// The abort bound is judged without time: when the user function whose failure must abort has
// returned and the library is quiescent, every other user function is held at its gate; they are
// then released one at a time, each followed by quiescence, and the items started from that point
// on are counted.  The property allows at most k of them, not the rest of the input.
package main

import (
	"context"
	"encoding/json"
	"errors"
	"fmt"
	"io"
	"math/rand"
	"os"
	"runtime"
	"sort"
	"strconv"
	"strings"
	"sync"
	"sync/atomic"

	"github.com/tychoish/fun"
	"github.com/tychoish/fun/erc"
	"github.com/tychoish/fun/ers"
	"github.com/tychoish/fun/itertool"
	"verif/harness/rt"
)

// ------------------------------------------------------------------ input format

type faultRow struct {
	Item   int      `json:"item"`
	Kind   string   `json:"kind"`
	Report string   `json:"report"` // must | never | any
	Cont   string   `json:"cont"`   // must | mustnot | any
	Need   []string `json:"need"`   // sentinels errors.Is must find once this failure occurred and report = must
	Carry  []string `json:"carry"`  // never-reported sentinels that may be found after all once this failure occurred
}

type config struct {
	C      string     `json:"c"`
	N      int        `json:"n"`
	K      int        `json:"k"`
	Coe    bool       `json:"coe"`
	Cop    bool       `json:"cop"`
	Inc    bool       `json:"inc"`
	Exc    bool       `json:"exc"`
	Coll   string     `json:"coll"`
	Kinds  []string   `json:"kinds"`
	Faults []faultRow `json:"faults"`
	Never  []string   `json:"never"`
	Bound  int        `json:"bound"`
	Full   bool       `json:"full"`
	Nilok  *bool      `json:"nilok"` // "nil iff no reportable failure" is judged (nil = yes)
}

type step struct {
	Op   string `json:"op"`
	Arg  int    `json:"arg"`
	Chk  bool   `json:"chk"`
	Held []int  `json:"held"`
	Run  string `json:"run"` // "blocked": the Run of a worker group must not have returned yet
}

type behaviour struct {
	Cfg   config `json:"cfg"`
	Steps []step `json:"steps"`
}

type input struct {
	N   int       `json:"n"`
	Beh behaviour `json:"beh"`
}

// ------------------------------------------------------------------ sentinels

var errX = errors.New("X: the sentinel listed in ExcludedErrors")

type itemErr struct{ i int }

func (e *itemErr) Error() string { return "E" + strconv.Itoa(e.i) }

const maxItems = 64

var errE [maxItems + 1]*itemErr

func init() {
	for i := range errE {
		errE[i] = &itemErr{i}
	}
}

type panicValue struct{ i int }

// sentinel resolves a name of the specs' vocabulary.
func sentinel(name string) error {
	switch name {
	case "PANIC":
		return fun.ErrRecoveredPanic
	case "EOF":
		return io.EOF
	case "SKIP":
		return fun.ErrIteratorSkip
	case "CTX":
		return context.Canceled
	case "X":
		return errX
	case "ABORT":
		return ers.ErrCurrentOpAbort
	}
	if name == "E" {
		return errE[1] // the matrix cells have a single item
	}
	if strings.HasPrefix(name, "E") {
		if i, err := strconv.Atoi(name[1:]); err == nil && i >= 0 && i <= maxItems {
			return errE[i]
		}
	}
	panic("unknown sentinel " + name)
}

// produce is what the user function of item i does once released: it returns the error, or panics.
func produce(kind string, i int) error {
	switch kind {
	case "ok":
		return nil
	case "err":
		return errE[i]
	case "wrapped":
		return fmt.Errorf("wrapped by the user function: %w", errE[i])
	case "panicErr":
		panic(errE[i])
	case "panicStr":
		panic("P" + strconv.Itoa(i))
	case "panicOther":
		panic(panicValue{i})
	case "skip":
		return fun.ErrIteratorSkip
	case "eof":
		return io.EOF
	case "abort":
		return ers.ErrCurrentOpAbort
	case "ctx":
		return context.Canceled
	case "excl":
		return errX
	}
	// panicW_<S>: panic with a value that IS (odd items) or WRAPS (even items) the sentinel S
	if strings.HasPrefix(kind, "panicW_") {
		v := sentinel(strings.TrimPrefix(kind, "panicW_"))
		if i%2 == 0 {
			v = fmt.Errorf("the user function of item %d gave up: %w", i, v)
		}
		panic(v)
	}
	panic("unknown kind " + kind)
}

// ------------------------------------------------------------------ the world

const inBase, outBase = 100, 1100

type world struct {
	cfg    config
	rec    *rt.Recorder
	g      *rt.Gates
	gated  bool
	ctx    context.Context
	cancel context.CancelFunc
	custom *erc.Collector
	yield  func() // free-running runs: a few scheduler yields inside the user function

	mu      sync.Mutex
	entered []int
	enterG  []int
	exited  map[int]bool
	exitG   map[int]int
	got     []int // outputs received by the consumer, as item ids
	bad     []string

	out     *fun.Iterator[int]
	runOp   *rt.Op
	res     error
	genNext atomic.Int64
}

func gate(i int) string { return "cb" + strconv.Itoa(i) }

func curGID() int {
	var b [64]byte
	n := runtime.Stack(b[:], false)
	var id int
	fmt.Sscanf(string(b[:n]), "goroutine %d ", &id)
	return id
}

func (w *world) kind(i int) string {
	if i >= 1 && i <= len(w.cfg.Kinds) {
		return w.cfg.Kinds[i-1]
	}
	return "ok"
}

// call is the body of every harness-supplied user function.
func (w *world) call(i int) error {
	g := curGID()
	w.mu.Lock()
	if i < 1 || i > w.cfg.N {
		w.bad = append(w.bad, fmt.Sprintf("user function called for %d, which is no input item", i))
	}
	w.entered = append(w.entered, i)
	w.enterG = append(w.enterG, g)
	w.rec.Log(rt.Event{"ev": "cb_enter", "item": i, "g": g})
	w.mu.Unlock()
	if w.gated {
		w.g.Arrive(gate(i))
	} else if w.yield != nil {
		w.yield()
	}
	k := w.kind(i)
	w.mu.Lock()
	w.exited[i] = true
	w.exitG[i] = g
	w.rec.Log(rt.Event{"ev": "cb_exit", "item": i, "g": g, "kind": k})
	w.mu.Unlock()
	return produce(k, i)
}

func seq(a, b int) []int {
	var out []int
	for i := a; i <= b; i++ {
		out = append(out, i)
	}
	return out
}

func (w *world) options() []fun.OptionProvider[*fun.WorkerGroupConf] {
	c := w.cfg
	opts := []fun.OptionProvider[*fun.WorkerGroupConf]{fun.WorkerGroupConfNumWorkers(c.K)}
	if c.Coe {
		opts = append(opts, fun.WorkerGroupConfContinueOnError())
	}
	if c.Cop {
		opts = append(opts, fun.WorkerGroupConfContinueOnPanic())
	}
	if c.Inc {
		opts = append(opts, fun.WorkerGroupConfIncludeContextErrors())
	}
	if c.Exc {
		opts = append(opts, fun.WorkerGroupConfAddExcludeErrors(errX))
	}
	if c.Coll == "custom" {
		w.custom = &erc.Collector{}
		opts = append(opts, fun.WorkerGroupConfWithErrorCollector(w.custom))
	}
	return opts
}

// start builds the real construct and starts the run in its own goroutine.
func (w *world) start() {
	c := w.cfg
	opts := w.options()
	var vals []int
	for _, i := range seq(1, c.N) {
		vals = append(vals, inBase+i)
	}
	proc := func(_ context.Context, v int) error { return w.call(v - inBase) }
	drain := func(it *fun.Iterator[int], base int) {
		w.out = it
		w.runOp = rt.Start(-1, func() any {
			for {
				v, err := it.ReadOne(w.ctx)
				if err != nil {
					break
				}
				w.mu.Lock()
				w.got = append(w.got, v-base)
				w.mu.Unlock()
			}
			w.res = it.Close()
			return nil
		})
	}
	switch c.C {
	case "pp":
		wk := fun.SliceIterator(vals).ProcessParallel(proc, opts...)
		w.runOp = rt.Start(-1, func() any { w.res = wk.Run(w.ctx); w.rec.Log(rt.Event{"ev": "returned"}); return nil })
	case "pfe":
		src := fun.SliceIterator(vals)
		w.runOp = rt.Start(-1, func() any { w.res = itertool.ParallelForEach(w.ctx, src, proc, opts...); w.rec.Log(rt.Event{"ev": "returned"}); return nil })
	case "worker":
		var ops []fun.Worker
		for _, i := range seq(1, c.N) {
			i := i
			ops = append(ops, func(context.Context) error { return w.call(i) })
		}
		src := fun.SliceIterator(ops)
		w.runOp = rt.Start(-1, func() any { w.res = itertool.Worker(w.ctx, src, opts...); w.rec.Log(rt.Event{"ev": "returned"}); return nil })
	case "map":
		drain(fun.Map(fun.SliceIterator(vals), func(_ context.Context, v int) (int, error) {
			if err := w.call(v - inBase); err != nil {
				return 0, err
			}
			return v - inBase + outBase, nil
		}, opts...), outBase)
	case "gen":
		drain(fun.Producer[int](func(context.Context) (int, error) {
			i := int(w.genNext.Add(1))
			if i > c.N {
				return 0, io.EOF // the regular end of the generator
			}
			if err := w.call(i); err != nil {
				return 0, err
			}
			return inBase + i, nil
		}).GenerateParallel(opts...), inBase)
	default:
		panic("unknown construct " + c.C)
	}
}

func (w *world) heldNow() []int {
	var out []int
	w.mu.Lock()
	seen := map[int]bool{}
	for _, i := range w.entered {
		if !seen[i] && !w.exited[i] && w.g.Waiting(gate(i)) > 0 {
			out = append(out, i)
		}
		seen[i] = true
	}
	w.mu.Unlock()
	sort.Ints(out)
	return out
}

// settle runs to quiescence and requires two consecutive quiescent points to agree.
func (w *world) settle() error {
	prev := ""
	for i := 0; i < 6; i++ {
		snap, err := rt.Quiesce()
		if err != nil {
			return err
		}
		var sig []string
		for _, g := range snap {
			sig = append(sig, fmt.Sprintf("%d:%s", g.ID, g.State))
		}
		sort.Strings(sig)
		w.mu.Lock()
		s := fmt.Sprintf("%v|%d|%d|%d|%v", sig, len(w.entered), len(w.exited), len(w.got), w.runOp != nil && w.runOp.Done())
		w.mu.Unlock()
		if s == prev {
			return nil
		}
		prev = s
	}
	return rt.ErrNotQuiescent
}

// found reports whether errors.Is finds the sentinel in the result: the returned error / Close() of the
// output iterator - or, for a caller that supplied its own collector, what that collector resolves to.
func (w *world) found(name string) bool {
	s := sentinel(name)
	if errors.Is(w.res, s) {
		return true
	}
	return w.custom != nil && errors.Is(w.custom.Resolve(), s)
}

func (w *world) resNil() bool {
	return w.res == nil && (w.custom == nil || w.custom.Resolve() == nil)
}

func (w *world) universe() []string {
	names := []string{"PANIC", "EOF", "SKIP", "CTX", "X", "ABORT"}
	for i := 1; i <= w.cfg.N; i++ {
		names = append(names, "E"+strconv.Itoa(i))
	}
	return names
}

func (w *world) resultEvent() rt.Event {
	is := []string{}
	for _, nm := range w.universe() {
		if w.found(nm) {
			is = append(is, nm)
		}
	}
	w.mu.Lock()
	got := append([]int{}, w.got...)
	w.mu.Unlock()
	pan := 0
	if w.runOp != nil && w.runOp.Pan != nil {
		pan = 1
	}
	txt := "nil"
	if w.res != nil {
		txt = w.res.Error()
		if len(txt) > 300 {
			txt = txt[:300]
		}
	}
	return rt.Event{"ev": "result", "nil": w.resNil(), "is": is, "got": got, "panicked": pan, "text": txt}
}

func (w *world) resetEvent() rt.Event {
	c := w.cfg
	gated := 0
	if w.gated {
		gated = 1
	}
	return rt.Event{"ev": "reset", "c": c.C, "n": c.N, "k": c.K, "coe": c.Coe, "cop": c.Cop, "inc": c.Inc, "exc": c.Exc,
		"coll": c.Coll, "gated": gated}
}

func newWorld(cfg config, gated bool) *world {
	w := &world{cfg: cfg, rec: &rt.Recorder{}, g: rt.NewGates(), gated: gated, exited: map[int]bool{}, exitG: map[int]int{}}
	w.ctx, w.cancel = context.WithCancel(context.Background())
	if gated {
		for i := 1; i <= cfg.N; i++ {
			w.g.Arm(gate(i))
		}
	}
	w.rec.Log(w.resetEvent())
	return w
}

func (w *world) teardown() {
	for i := 1; i <= w.cfg.N; i++ {
		w.g.Disarm(gate(i))
	}
	w.cancel()
	if w.out != nil {
		it := w.out
		rt.Start(-2, func() any { return it.Close() })
	}
}

// ------------------------------------------------------------------ replay

func sameSet(a, b []int) bool {
	if len(a) != len(b) {
		return false
	}
	a, b = append([]int{}, a...), append([]int{}, b...)
	sort.Ints(a)
	sort.Ints(b)
	for i := range a {
		if a[i] != b[i] {
			return false
		}
	}
	return true
}

func replay(in input) (result map[string]any) {
	cfg := in.Beh.Cfg
	if cfg.N > maxItems {
		return map[string]any{"n": in.N, "ok": true, "inconclusive": "too many items"}
	}
	w := newWorld(cfg, true)
	defer w.teardown()
	fault := map[int]faultRow{}
	for _, f := range cfg.Faults {
		fault[f.Item] = f
	}
	diverged := ""
	abortBase := -1 // number of items entered when the first failure that must abort had returned (at quiescence)
	abortItem := 0
	finish := func(m map[string]any) map[string]any {
		m["n"] = in.N
		m["hist"] = w.rec.Events()
		m["cfg"] = cfg
		if diverged != "" {
			m["diverged"] = diverged
		}
		return m
	}
	fail := func(k int, key, what string) map[string]any {
		return finish(map[string]any{"ok": false, "step": k, "key": "wgerr/" + cfg.C + "/" + key, "what": what})
	}
	inconclusive := func(why string) map[string]any {
		return finish(map[string]any{"ok": true, "inconclusive": why})
	}
	nEntered := func() int { w.mu.Lock(); defer w.mu.Unlock(); return len(w.entered) }
	// after the user function of item i has returned and the library is quiescent
	released := func(i int) {
		if f, ok := fault[i]; ok && f.Cont == "mustnot" && abortBase < 0 {
			abortBase, abortItem = nEntered(), i
		}
	}
	over := false
	for k, st := range in.Beh.Steps {
		switch st.Op {
		case "start":
			w.start()
			if err := w.settle(); err != nil {
				return inconclusive("no quiescence after start")
			}
		case "rel":
			if diverged != "" {
				continue
			}
			if w.g.Waiting(gate(st.Arg)) == 0 {
				diverged = fmt.Sprintf("step %d: the user function of item %d is not held", k, st.Arg)
				continue
			}
			before := nEntered()
			w.g.Disarm(gate(st.Arg))
			if err := w.settle(); err != nil {
				return inconclusive("no quiescence after rel")
			}
			released(st.Arg)
			if f, ok := fault[st.Arg]; ok && f.Cont == "mustnot" && nEntered() > before {
				// every other user function is held, so the new item was taken by the failing worker
				return fail(k, "abort/failing-worker-takes-next-item", fmt.Sprintf(
					"item %d failed (%s) in abort mode while every other user function was held, and a further item (%d) was started: the failing worker did not stop",
					st.Arg, f.Kind, w.entered[len(w.entered)-1]))
			}
		case "cancel":
			// the caller cancels its context (0) / the consumer closes the output (1) while user functions are held
			w.rec.Log(rt.Event{"ev": "cancel", "mode": st.Arg})
			if st.Arg == 1 && w.out != nil {
				it := w.out
				rt.Start(-3, func() any { return it.Close() })
			} else {
				w.cancel()
			}
			if err := w.settle(); err != nil {
				return inconclusive("no quiescence after cancel")
			}
			if st.Run == "blocked" && w.runOp.Done() && len(w.heldNow()) > 0 {
				return fail(k, "cancel/run-returned-while-callback-held", fmt.Sprintf(
					"the caller's context was cancelled while the user functions of items %v were still running, and Run returned (%v) without waiting for them: whatever they return is lost",
					w.heldNow(), w.res))
			}
		case "drain":
			for round := 0; round <= cfg.N+1; round++ {
				h := w.heldNow()
				if len(h) == 0 {
					break
				}
				w.g.Disarm(gate(h[0]))
				if err := w.settle(); err != nil {
					return inconclusive("no quiescence in drain")
				}
				released(h[0])
			}
			if len(w.heldNow()) > 0 || !w.runOp.Done() {
				return inconclusive("the run is not over although no user function is held")
			}
			over = true
		default:
			panic("unknown op " + st.Op)
		}
		if st.Op != "drain" && st.Chk && diverged == "" {
			if h := w.heldNow(); !sameSet(h, st.Held) {
				diverged = fmt.Sprintf("step %d (%s %d): user functions held %v, reference run %v", k, st.Op, st.Arg, h, st.Held)
			}
		}
		if len(w.bad) > 0 {
			return fail(k, "callback/invented-item", w.bad[0])
		}
	}
	if !over {
		return inconclusive("schedule without a drain step")
	}
	if w.out != nil {
		// the errors of the stage are reported by Close() of the output: read it (again) now that every user
		// function has returned
		w.res = w.out.Close()
	}
	w.rec.Log(w.resultEvent())

	// ---- the oracle: fold the spec's tables over what actually occurred ----
	last := len(in.Beh.Steps) - 1
	if w.runOp.Pan != nil {
		return fail(last, "escaped-as-panic", fmt.Sprintf("the run panicked in the caller's goroutine: %v", w.runOp.Pan))
	}
	cnt := map[int]int{}
	for _, i := range w.entered {
		cnt[i]++
		if cnt[i] > 1 {
			return fail(last, "item-processed-twice", fmt.Sprintf("the user function was called twice for item %d", i))
		}
	}
	// a worker whose failure must abort handles no further item
	abortedG := map[int]int{}
	evs := w.rec.Events()
	for _, e := range evs {
		switch e["ev"] {
		case "cb_enter":
			if it, ok := abortedG[e["g"].(int)]; ok {
				return fail(last, "abort/failing-worker-takes-next-item", fmt.Sprintf(
					"the worker whose user function failed on item %d (abort mode) went on to process item %d", it, e["item"].(int)))
			}
		case "cb_exit":
			if f, ok := fault[e["item"].(int)]; ok && f.Cont == "mustnot" {
				abortedG[e["g"].(int)] = f.Item
			}
		}
	}
	// abort stops: at most `bound` further items, not the rest of the input
	if abortBase >= 0 {
		if extra := len(w.entered) - abortBase; extra > cfg.Bound {
			key := "abort/other-workers-consume-input"
			if k := fault[abortItem].Kind; strings.HasPrefix(k, "panicW_") {
				key += "/after-" + k // the aborting failure was a panic whose value is / wraps a sentinel
			}
			return fail(last, key, fmt.Sprintf(
				"item %d failed (%s) without ContinueOn*: after that user function had returned (all others held, library quiescent) "+
					"%d further items were started by the %d workers - the property allows at most %d; all %d items of the input were consumed: %v",
				abortItem, fault[abortItem].Kind, extra, cfg.K, cfg.Bound, len(w.entered), w.entered))
		}
	}
	// nothing swallowed / nil iff no reportable failure
	mustSeen, anySeen := false, false
	for _, f := range cfg.Faults {
		if !w.exited[f.Item] {
			continue
		}
		switch f.Report {
		case "must":
			mustSeen = true
			for _, nm := range f.Need {
				if !w.found(nm) {
					return fail(last, "swallowed/"+f.Kind, fmt.Sprintf(
						"the user function of item %d failed (%s) and errors.Is(result, %s) is false; result: %v", f.Item, f.Kind, nm, w.res))
				}
			}
		case "any":
			anySeen = true
		}
	}
	// never reported - unless the sentinel came as the value of a (reported) panic
	carried := map[string]bool{}
	for _, f := range cfg.Faults {
		if w.exited[f.Item] {
			for _, nm := range f.Carry {
				carried[nm] = true
			}
		}
	}
	for _, nm := range cfg.Never {
		if w.found(nm) && !carried[nm] {
			key := "never-reported-error-found/" + nm
			if nm == "X" {
				key = "excluded-error-reported"
			}
			return fail(last, key, fmt.Sprintf("errors.Is(result, %s) is true although %s must never be reported under these options; result: %v", nm, nm, w.res))
		}
	}
	if mustSeen && w.resNil() {
		return fail(last, "nil-despite-failure", "the result is nil although a reportable failure occurred")
	}
	if !mustSeen && !anySeen && !w.resNil() && (cfg.Nilok == nil || *cfg.Nilok) {
		return fail(last, "non-nil-without-failure", fmt.Sprintf("the result is %v although no reportable failure occurred", w.res))
	}
	// outputs: only results of successful items, each at most once
	gcnt := map[int]int{}
	for _, i := range w.got {
		gcnt[i]++
		if i < 1 || i > cfg.N || w.kind(i) != "ok" || gcnt[i] > 1 {
			return fail(last, "output/invented-or-duplicate", fmt.Sprintf("the output delivered %v; item %d is no successful item or came twice", w.got, i))
		}
	}
	// continue mode: every item is processed exactly once
	if cfg.Full {
		for i := 1; i <= cfg.N; i++ {
			if cnt[i] != 1 || !w.exited[i] {
				return fail(last, "continue/item-not-processed", fmt.Sprintf(
					"every failure of this run is one the run must continue after, but item %d was handed to the user function %d times (processed: %v)", i, cnt[i], w.entered))
			}
			if w.out != nil && w.kind(i) == "ok" && gcnt[i] != 1 {
				return fail(last, "continue/output-lost", fmt.Sprintf("the result of the successful item %d was not delivered (delivered: %v)", i, w.got))
			}
		}
	}
	return finish(map[string]any{"ok": true, "steps": len(in.Beh.Steps), "entered": len(w.entered)})
}

// ------------------------------------------------------------------ classify

type cellIn struct {
	N    int `json:"n"`
	Cell struct {
		Kind string `json:"kind"`
		O    struct {
			Coe bool `json:"coe"`
			Cop bool `json:"cop"`
			Inc bool `json:"inc"`
			Exc bool `json:"exc"`
		} `json:"o"`
		Classify struct {
			Report bool `json:"report"`
			Cont   bool `json:"cont"`
		} `json:"classify"`
		Contract struct {
			Report string `json:"report"`
			Cont   string `json:"cont"`
		} `json:"contract"`
		Need  []string `json:"need"`
		Never []string `json:"never"`
	} `json:"cell"`
}

// classify replays one cell of the matrix on the real code: the error value is produced by each of the
// real recover wrappers (Processor / Transform / Producer / Worker .WithRecover), then handed to the real
// WorkerGroupConf.CanContinueOnError with a recording ErrorHandler.
func classify(in cellIn) map[string]any {
	c := in.Cell
	ctx := context.Background()
	item := 1
	wrappers := map[string]func() error{
		"processor": func() error {
			return fun.Processor[int](func(context.Context, int) error { return produce(c.Kind, item) }).WithRecover()(ctx, 1)
		},
		"transform": func() error {
			_, err := fun.Transform[int, int](func(context.Context, int) (int, error) { return 0, produce(c.Kind, item) }).WithRecover()(ctx, 1)
			return err
		},
		"producer": func() error {
			_, err := fun.Producer[int](func(context.Context) (int, error) { return 0, produce(c.Kind, item) }).WithRecover()(ctx)
			return err
		},
		"worker": func() error {
			return fun.Worker(func(context.Context) error { return produce(c.Kind, item) }).WithRecover()(ctx)
		},
	}
	names := []string{"processor", "transform", "producer", "worker"}
	transcription := ""
	// a panic value that IS the sentinel (item 1) and one that WRAPS it (item 2)
	if strings.HasPrefix(c.Kind, "panicW_") {
		names = append(names, "processor/wraps", "transform/wraps", "producer/wraps", "worker/wraps")
	}
	for _, wn := range names {
		item = 1
		if strings.HasSuffix(wn, "/wraps") {
			item = 2
		}
		var escaped any
		var errv error
		func() {
			defer func() { escaped = recover() }()
			errv = wrappers[strings.TrimSuffix(wn, "/wraps")]()
		}()
		bad := func(key, what string) map[string]any {
			return map[string]any{"n": in.N, "ok": false, "key": "wgerr/classify/" + key,
				"what": fmt.Sprintf("%s.WithRecover + CanContinueOnError, kind %s, options %+v: %s", wn, c.Kind, c.O, what), "cell": c}
		}
		if escaped != nil {
			return bad("escaped-as-panic", fmt.Sprintf("the panic escaped the recover wrapper: %v", escaped))
		}
		var handled []error
		conf := fun.WorkerGroupConf{ContinueOnError: c.O.Coe, ContinueOnPanic: c.O.Cop, IncludeContextExpirationErrors: c.O.Inc,
			ErrorHandler: func(err error) { handled = append(handled, err) }}
		if c.O.Exc {
			conf.ExcludedErrors = []error{errX}
		}
		cont := conf.CanContinueOnError(errv)
		var rep error
		for _, h := range handled {
			rep = errors.Join(rep, h)
		}
		reported := rep != nil
		switch c.Contract.Report {
		case "must":
			if !reported {
				return bad("swallowed/"+c.Kind, "the failure is not handed to the ErrorHandler")
			}
			for _, nm := range c.Need {
				if !errors.Is(rep, sentinel(nm)) {
					return bad("swallowed/"+c.Kind, fmt.Sprintf("errors.Is(reported, %s) is false; reported: %v", nm, rep))
				}
			}
		case "never":
			if reported {
				key := "never-reported-error-found/" + c.Kind
				if c.Kind == "excl" {
					key = "excluded-error-reported"
				}
				return bad(key, fmt.Sprintf("the failure is handed to the ErrorHandler although it must never be reported: %v", rep))
			}
		}
		for _, nm := range c.Never {
			if reported && errors.Is(rep, sentinel(nm)) {
				return bad("never-reported-error-found/"+nm, fmt.Sprintf("errors.Is(reported, %s) is true: %v", nm, rep))
			}
		}
		if c.Contract.Cont == "must" && !cont {
			return bad("continue/stops", "processing stops although it must continue")
		}
		if c.Contract.Cont == "mustnot" && cont {
			return bad("abort/continues", "processing continues although it must abort")
		}
		if reported != c.Classify.Report || cont != c.Classify.Cont {
			transcription = fmt.Sprintf("%s: code (report=%v, continue=%v) differs from ErrContract!Classify (report=%v, continue=%v)",
				wn, reported, cont, c.Classify.Report, c.Classify.Cont)
		}
	}
	out := map[string]any{"n": in.N, "ok": true}
	if transcription != "" {
		out["transcription"] = transcription
	}
	return out
}

// ------------------------------------------------------------------ record (free-running)

var allKinds = []string{"err", "wrapped", "panicErr", "panicStr", "panicOther", "skip", "eof", "abort", "ctx", "excl",
	"panicW_EOF", "panicW_SKIP", "panicW_CTX", "panicW_X", "panicW_ABORT"}

func record(n int, seed int64) {
	rng := rand.New(rand.NewSource(seed))
	constructs := []string{"pp", "pfe", "worker", "map", "gen"}
	for h := 0; h < n; h++ {
		cfg := config{C: constructs[rng.Intn(len(constructs))], N: rng.Intn(9), K: 1 + rng.Intn(4),
			Coe: rng.Intn(2) == 0, Cop: rng.Intn(2) == 0, Inc: rng.Intn(3) == 0, Exc: rng.Intn(3) == 0, Coll: "default"}
		if rng.Intn(4) == 0 {
			cfg.Coll = "custom"
		}
		for i := 1; i <= cfg.N; i++ {
			cfg.Kinds = append(cfg.Kinds, "ok")
		}
		for f := rng.Intn(3); f > 0 && cfg.N > 0; f-- {
			cfg.Kinds[rng.Intn(cfg.N)] = allKinds[rng.Intn(len(allKinds))]
		}
		w := newWorld(cfg, false)
		var ymu sync.Mutex
		w.yield = func() {
			ymu.Lock()
			y := rng.Intn(4)
			ymu.Unlock()
			for ; y > 0; y-- {
				runtime.Gosched()
			}
		}
		w.start()
		for !w.runOp.Done() {
			runtime.Gosched() // finite input, user functions return at once: the run ends; a hang ends as a timeout (exit 2)
		}
		w.rec.Log(w.resultEvent())
		rt.Emit(map[string]any{"hist": w.rec.Events()})
		w.teardown()
	}
}

// ------------------------------------------------------------------ main

func main() {
	if len(os.Args) < 2 {
		fmt.Fprintln(os.Stderr, "usage: vh-wgerr replay|classify|record N SEED")
		os.Exit(2)
	}
	switch os.Args[1] {
	case "replay":
		rt.ReadLines(func(_ int, raw json.RawMessage) {
			var in input
			if err := json.Unmarshal(raw, &in); err != nil {
				panic(err)
			}
			rt.Emit(map[string]any{"begin": in.N})
			rt.Flush()
			rt.Emit(replay(in))
			rt.Flush()
		})
	case "classify":
		rt.ReadLines(func(_ int, raw json.RawMessage) {
			var in cellIn
			if err := json.Unmarshal(raw, &in); err != nil {
				panic(err)
			}
			rt.Emit(map[string]any{"begin": in.N})
			rt.Emit(classify(in))
		})
	case "record":
		n, _ := strconv.Atoi(os.Args[2])
		seed, _ := strconv.ParseInt(os.Args[3], 10, 64)
		record(n, seed)
	default:
		fmt.Fprintln(os.Stderr, "unknown mode")
		os.Exit(2)
	}
	rt.Flush()
}
