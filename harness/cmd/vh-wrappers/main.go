// vh-wrappers binds spec/wrappers to the function wrappers of tychoish/fun (property C15).
//
//	vh-wrappers replay   < behaviours.ndjson   quiescence-stepped replay of WrappersStep behaviours
//	vh-wrappers record N SEED                  concurrent, un-stepped histories for WrappersTrace
//	vh-wrappers kinds                          the constructor table this binary implements
//
// The wrapped function is always the harness's own probe: it numbers its executions, counts
// concurrency, waits in a gate (replay) and returns the scripted result of that execution.
// All expectations come from the behaviours TLC printed; nothing is judged by elapsed time.
package main

import (
	"context"
	"encoding/json"
	"fmt"
	"os"
	"runtime"
	"sort"
	"strconv"
	"strings"
	"sync"
	"time"

	"verif/harness/rt"
)

type scenario struct {
	Fam    string   `json:"fam"`
	Kind   string   `json:"kind"`
	N      int      `json:"n"`
	M      int      `json:"m"`
	Pre    bool     `json:"pre"`
	Script []string `json:"script"`
}

type expect struct {
	Lo       int        `json:"lo"`
	Hi       int        `json:"hi"`
	Maxc     int        `json:"maxc"`
	Nlo      int        `json:"nlo"`
	Nhi      int        `json:"nhi"`
	Jr       bool       `json:"jr"`
	Rets     []int      `json:"rets"`
	Minb     int        `json:"minb"`
	Attempts int        `json:"attempts"`
	Classes  []string   `json:"classes"`
	Val      int        `json:"val"`
	Allowed  [][]string `json:"allowed"`
}

type step struct {
	Op  string `json:"op"`
	Arg string `json:"arg"`
	Exp expect `json:"exp"`
}

type behaviour struct {
	Sc    scenario `json:"sc"`
	Steps []step   `json:"steps"`
}

type input struct {
	N   int       `json:"n"`
	Beh behaviour `json:"beh"`
}

func main() {
	if len(os.Args) < 2 {
		fmt.Fprintln(os.Stderr, "usage: vh-wrappers replay|record|kinds")
		os.Exit(2)
	}
	switch os.Args[1] {
	case "replay":
		rt.ReadLines(func(_ int, raw json.RawMessage) {
			var in input
			if err := json.Unmarshal(raw, &in); err != nil {
				panic(err)
			}
			rt.Emit(map[string]any{"begin": in.N})
			rt.Flush()
			rt.Emit(replay(in))
			rt.Flush()
		})
	case "record":
		n, _ := strconv.Atoi(os.Args[2])
		seed, _ := strconv.Atoi(os.Args[3])
		record(n, int64(seed))
	case "kinds":
		rt.Emit(map[string]any{"kinds": kindTable()})
	}
	rt.Flush()
}

// quiesce is rt.Quiesce plus one precaution.  A goroutine whose allocation triggers a GC cycle parks in
// the runtime-internal wait state "semacquire" on the world semaphore - which the stop-the-world
// snapshots of rt.Quiesce themselves keep taking; two snapshots in a row can therefore show it "blocked"
// although it runs as soon as it gets the semaphore (observed under load: a freshly started caller
// reported as blocked before it had entered the wrapper).  No user-level primitive exercised here parks
// with that reason (sync.Mutex, sync.Cond, channels and select have their own), so a snapshot containing
// it is not a fixed point: back off so the goroutine can take the semaphore, and look again.
func quiesce() ([]rt.G, error) {
	for i := 0; ; i++ {
		snap, err := rt.Quiesce()
		if err != nil {
			return snap, err
		}
		transient := false
		for _, g := range snap {
			transient = transient || g.State == "semacquire"
		}
		if !transient {
			return snap, nil
		}
		if i >= 200 {
			return nil, rt.ErrNotQuiescent
		}
		for j := 0; j < 20; j++ {
			runtime.Gosched()
		}
		time.Sleep(200 * time.Microsecond)
	}
}

// ------------------------------------------------------------------ the probe

// probe is the wrapped function's body.  Every execution gets the next index k (1-based),
// is counted in the concurrency gauge, optionally waits in gate "fn", and then produces
// script[k] (executions beyond the script succeed).
type probe struct {
	mu       sync.Mutex
	script   []string
	entered  int
	inflight int
	maxconc  int
	finished int
	g        *rt.Gates
	rec      *rt.Recorder
	down     bool // torn down: return at once
	yields   int  // record mode: scheduler yields inside the function, to widen the windows
}

func (p *probe) class(k int) string {
	if k >= 1 && k <= len(p.script) {
		return p.script[k-1]
	}
	return "ok"
}

// run performs one execution and returns its index and result class; it panics for "panic".
func (p *probe) run() (int, string) {
	p.mu.Lock()
	p.entered++
	k := p.entered
	p.inflight++
	if p.inflight > p.maxconc {
		p.maxconc = p.inflight
	}
	down := p.down
	p.mu.Unlock()
	if p.rec != nil {
		p.rec.Log(rt.Event{"ev": "enter", "k": k})
	}
	if p.g != nil && !down {
		p.g.Arrive("fn")
	}
	for y := 0; y < p.yields && !down; y++ {
		runtime.Gosched()
	}
	cl := p.class(k)
	if p.rec != nil {
		p.rec.Log(rt.Event{"ev": "exit", "k": k, "res": cl})
	}
	p.mu.Lock()
	p.inflight--
	p.finished++
	p.mu.Unlock()
	if cl == "panic" {
		panic(probePanic{k})
	}
	return k, cl
}

func (p *probe) snapshot() (entered, maxconc, finished int) {
	p.mu.Lock()
	defer p.mu.Unlock()
	return p.entered, p.maxconc, p.finished
}

func (p *probe) teardown() {
	p.mu.Lock()
	p.down = true
	p.mu.Unlock()
	if p.g != nil {
		p.g.Disarm("fn")
	}
}

type probePanic struct{ k int }

func (e probePanic) String() string { return fmt.Sprintf("probe panic in execution %d", e.k) }

// ------------------------------------------------------------------ replay

func key(sc scenario, pred string) string { return "wrappers/" + sc.Kind + "/" + pred }

func fail(in input, k int, pred, what string, extra map[string]any) map[string]any {
	m := map[string]any{"n": in.N, "ok": false, "step": k, "key": key(in.Beh.Sc, pred), "what": in.Beh.Sc.Kind + ": " + what}
	for a, b := range extra {
		m[a] = b
	}
	return m
}

func inconclusive(in input, why string) map[string]any {
	return map[string]any{"n": in.N, "ok": true, "inconclusive": why}
}

func replay(in input) (out map[string]any) {
	sc := in.Beh.Sc
	switch sc.Fam {
	case "retry":
		return replayRetry(in)
	case "hooks", "pjoin":
		return replayHooks(in)
	}
	p := &probe{script: sc.Script, g: rt.NewGates()}
	p.g.Arm("fn")
	bg, bgCancel := context.WithCancel(context.Background())
	sub, err := build(sc, p, bg)
	if err != nil {
		bgCancel()
		return map[string]any{"n": in.N, "ok": false, "key": "harness/unknown-kind", "what": err.Error(), "infra": true}
	}
	ctxs := map[string]context.Context{}
	cancels := map[string]context.CancelFunc{}
	ctxOf := func(id string) context.Context {
		if c, ok := ctxs[id]; ok {
			return c
		}
		c, cancel := context.WithCancel(context.Background())
		ctxs[id], cancels[id] = c, cancel
		return c
	}
	ops := map[string]*rt.Op{}
	order := []string{}
	defer func() {
		p.teardown()
		bgCancel()
		for _, c := range cancels {
			c()
		}
		quiesce()
	}()
	if _, err := quiesce(); err != nil {
		return inconclusive(in, "no quiescence after construction")
	}
	for k, st := range in.Beh.Steps {
		switch st.Op {
		case "start", "waiter":
			id := st.Arg
			c := ctxOf(id)
			idx := len(order)
			order = append(order, id)
			ops[id] = rt.Start(k, func() any { return sub.call(idx, c) })
		case "cancel":
			ctxOf(st.Arg)
			cancels[st.Arg]()
		case "release":
			if !p.g.ReleaseOne("fn") {
				// the contract did not fix whether an execution is in flight here (unjudged corner,
				// e.g. after a panic) or the wrapper never got there: nothing more can be driven
				if st.Exp.Lo == st.Exp.Hi && sc.Fam != "launch" {
					return fail(in, k, "executed-too-seldom", "no execution of the wrapped function is in flight although the contract requires one", nil)
				}
				return inconclusive(in, "no execution held at an unjudged release")
			}
		default:
			panic("unknown op " + st.Op)
		}
		if _, err := quiesce(); err != nil {
			return inconclusive(in, "no quiescence after step "+strconv.Itoa(k))
		}
		entered, maxconc, _ := p.snapshot()
		e := st.Exp
		if entered > e.Hi {
			return fail(in, k, "executed-too-often", fmt.Sprintf("wrapped function entered %d times, contract allows at most %d (n=%d, callers started %d)", entered, e.Hi, sc.N, len(order)), nil)
		}
		if entered < e.Lo {
			return fail(in, k, "executed-too-seldom", fmt.Sprintf("wrapped function entered %d times at quiescence, contract requires %d (n=%d, callers started %d)", entered, e.Lo, sc.N, len(order)), nil)
		}
		if maxconc > e.Maxc {
			return fail(in, k, "overlapping-executions", fmt.Sprintf("%d executions of the wrapped function overlapped", maxconc), nil)
		}
		var sigs []string
		nret, liveBlocked := 0, 0
		for _, id := range order {
			op := ops[id]
			if op.Done() {
				nret++
				if op.Pan != nil {
					sigs = append(sigs, "panic")
				} else {
					sigs = append(sigs, fmt.Sprint(op.Res))
				}
			} else if ctxs[id].Err() == nil {
				liveBlocked++
			}
		}
		if sc.Fam == "launch" {
			if liveBlocked < e.Minb {
				return fail(in, k, "waiter-returned-before-background-done", fmt.Sprintf("%d waiter(s) with a live context must still be blocked while the background execution is held, %d are", e.Minb, liveBlocked), nil)
			}
			continue
		}
		if nret > e.Nhi {
			return fail(in, k, "returned-before-execution-finished", fmt.Sprintf("%d callers have returned, contract allows %d while the execution is held", nret, e.Nhi), nil)
		}
		if nret < e.Nlo {
			return fail(in, k, "caller-stuck", fmt.Sprintf("%d callers have returned at quiescence, contract requires %d", nret, e.Nlo), nil)
		}
		if e.Jr {
			var want []string
			for _, from := range e.Rets {
				want = append(want, sub.sig(from, p.class(from)))
			}
			sort.Strings(want)
			sort.Strings(sigs)
			if strings.Join(want, " ") != strings.Join(sigs, " ") {
				return fail(in, k, "wrong-result", fmt.Sprintf("callers observed %v, contract: results of executions %v = %v", sigs, e.Rets, want), nil)
			}
		}
	}
	return map[string]any{"n": in.N, "ok": true, "steps": len(in.Beh.Steps)}
}

// ------------------------------------------------------------------ Retry

func replayRetry(in input) map[string]any {
	sc := in.Beh.Sc
	p := &probe{script: sc.Script}
	call, err := buildRetry(sc, p)
	if err != nil {
		return map[string]any{"n": in.N, "ok": false, "key": "harness/unknown-kind", "what": err.Error(), "infra": true}
	}
	for k, st := range in.Beh.Steps {
		op := rt.Start(k, func() any { return call(context.Background()) })
		if _, err := quiesce(); err != nil {
			return inconclusive(in, "no quiescence")
		}
		if !op.Done() {
			return fail(in, k, "caller-stuck", "Retry did not return", nil)
		}
		attempts, _, _ := p.snapshot()
		e := st.Exp
		class, val := "panic", 0
		if op.Pan == nil {
			r := op.Res.(retryResult)
			class, val = r.class, r.val
		}
		if attempts > e.Attempts {
			pred := "continued-after-stop"
			if attempts > sc.N {
				pred = "too-many-attempts"
			}
			return fail(in, k, pred, fmt.Sprintf("Retry(%d) over script %v made %d attempts, contract: %d", sc.N, sc.Script, attempts, e.Attempts), nil)
		}
		if attempts < e.Attempts {
			return fail(in, k, "stopped-early", fmt.Sprintf("Retry(%d) over script %v made %d attempts, contract: %d", sc.N, sc.Script, attempts, e.Attempts), nil)
		}
		okc := false
		for _, c := range e.Classes {
			okc = okc || c == class
		}
		if !okc {
			pred := "wrong-result"
			if class == "err" && attempts > 0 && p.class(attempts) == "ok" {
				pred = "failure-reported-despite-success"
			}
			return fail(in, k, pred, fmt.Sprintf("Retry(%d) over script %v returned %q, contract allows %v", sc.N, sc.Script, class, e.Classes), nil)
		}
		if e.Val != 0 && val != e.Val {
			return fail(in, k, "wrong-value", fmt.Sprintf("Retry(%d) over script %v returned the value of attempt %d, contract: %d", sc.N, sc.Script, val, e.Val), nil)
		}
	}
	return map[string]any{"n": in.N, "ok": true, "steps": len(in.Beh.Steps)}
}

// ------------------------------------------------------------------ Join / PreHook / PostHook

func replayHooks(in input) map[string]any {
	sc := in.Beh.Sc
	ctx, cancel := context.WithCancel(context.Background())
	defer cancel()
	h := &hookLog{script: map[string]string{}, cancel: cancel}
	names := partNames(sc.Kind)
	for i, nm := range names {
		if i < len(sc.Script) {
			h.script[nm] = sc.Script[i]
		}
	}
	var call func(context.Context)
	var err error
	if sc.Fam == "pjoin" {
		call = buildPJoin(sc, h)
	} else {
		call, err = buildHooks(sc, h)
	}
	if err != nil {
		return map[string]any{"n": in.N, "ok": false, "key": "harness/unknown-kind", "what": err.Error(), "infra": true}
	}
	if sc.Pre {
		cancel()
	}
	for k, st := range in.Beh.Steps {
		op := rt.Start(k, func() any { call(ctx); return "ret" })
		if _, err := quiesce(); err != nil {
			return inconclusive(in, "no quiescence")
		}
		if !op.Done() {
			return fail(in, k, "caller-stuck", "call did not return", nil)
		}
		got := h.take()
		ok := false
		for _, a := range st.Exp.Allowed {
			ok = ok || strings.Join(a, ",") == strings.Join(got, ",")
		}
		if !ok {
			return fail(in, k, "order", fmt.Sprintf("parts ran as %v with part results %v (context expired on entry: %v); documented order allows %v", got, sc.Script, sc.Pre, st.Exp.Allowed), nil)
		}
	}
	return map[string]any{"n": in.N, "ok": true, "steps": len(in.Beh.Steps)}
}
