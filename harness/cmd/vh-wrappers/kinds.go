package main

import (
	"context"
	"errors"
	"fmt"
	"io"
	"sort"
	"strings"
	"sync"

	"github.com/tychoish/fun"
	"github.com/tychoish/fun/adt"
	"github.com/tychoish/fun/ft"
)

// ------------------------------------------------------------------ results of the wrapped function

// execErr is the error execution k returns for a non-ok class; it unwraps to the sentinel the
// library classifies (ErrIteratorSkip, io.EOF, context.Canceled) and identifies k.
type execErr struct {
	k     int
	class string
}

func (e *execErr) Error() string { return fmt.Sprintf("E%d:%s", e.k, e.class) }
func (e *execErr) Unwrap() error {
	switch e.class {
	case "skip":
		return fun.ErrIteratorSkip
	case "eof":
		return io.EOF
	case "ctx":
		return context.Canceled
	}
	return nil
}

func errFor(k int, class string) error {
	if class == "ok" {
		return nil
	}
	return &execErr{k, class}
}

// errSig renders an error as the observation "which execution's error is this".
func errSig(err error) string {
	if err == nil {
		return "nil"
	}
	var ee *execErr
	if errors.As(err, &ee) {
		return ee.Error()
	}
	return "?" + err.Error()
}

const (
	tNone   = iota // Operation, Handler, ft.Once: nothing is returned
	tErr           // Worker, Processor: an error
	tVal           // Future, adt.Once, Mnemonize, OnceDo: a value
	tValErr        // Producer: value and error
)

// subject is one wrapped value under test.
type subject struct {
	typ  int
	call func(idx int, ctx context.Context) any // one invocation by caller number idx; returns the observation
}

// sig is what a caller observes when it is handed the result of execution `from`.
func (s *subject) sig(from int, class string) string {
	if from < 0 {
		return "panic"
	}
	switch s.typ {
	case tErr:
		return errSig(errFor(from, class))
	case tVal:
		return fmt.Sprintf("v%d", from)
	case tValErr:
		return fmt.Sprintf("v%d,%s", from, errSig(errFor(from, class)))
	}
	return "-"
}

// the four shapes of the probe
func (p *probe) worker() fun.Worker {
	return func(context.Context) error { k, cl := p.run(); return errFor(k, cl) }
}
func (p *probe) operation() fun.Operation { return func(context.Context) { p.run() } }
func (p *probe) producer() fun.Producer[int] {
	return func(context.Context) (int, error) { k, cl := p.run(); return k, errFor(k, cl) }
}
func (p *probe) processor() fun.Processor[int] {
	return func(context.Context, int) error { k, cl := p.run(); return errFor(k, cl) }
}
func (p *probe) handler() fun.Handler[int] { return func(int) { p.run() } }
func (p *probe) future() fun.Future[int]   { return func() int { k, _ := p.run(); return k } }

func obsW(w fun.Worker) func(int, context.Context) any {
	return func(_ int, ctx context.Context) any { return errSig(w(ctx)) }
}
func obsO(o fun.Operation) func(int, context.Context) any {
	return func(_ int, ctx context.Context) any { o(ctx); return "-" }
}
func obsP(p fun.Producer[int]) func(int, context.Context) any {
	return func(_ int, ctx context.Context) any { v, err := p(ctx); return fmt.Sprintf("v%d,%s", v, errSig(err)) }
}
func obsPr(p fun.Processor[int]) func(int, context.Context) any {
	return func(i int, ctx context.Context) any { return errSig(p(ctx, i)) }
}
func obsH(h fun.Handler[int]) func(int, context.Context) any {
	return func(i int, _ context.Context) any { h(i); return "-" }
}
func obsF(f func() int) func(int, context.Context) any {
	return func(int, context.Context) any { return fmt.Sprintf("v%d", f()) }
}

// alternate picks one of several wrapped values by caller number (WithLock: several functions
// guarded by one mutex).
func alternate(fs ...func(int, context.Context) any) func(int, context.Context) any {
	return func(i int, ctx context.Context) any { return fs[i%len(fs)](i, ctx) }
}

type builder func(sc scenario, p *probe, bg context.Context) *subject

var builders = map[string]builder{
	// ---- Once
	"Worker.Once":    func(sc scenario, p *probe, _ context.Context) *subject { return &subject{tErr, obsW(p.worker().Once())} },
	"Operation.Once": func(sc scenario, p *probe, _ context.Context) *subject { return &subject{tNone, obsO(p.operation().Once())} },
	"Producer.Once":  func(sc scenario, p *probe, _ context.Context) *subject { return &subject{tValErr, obsP(p.producer().Once())} },
	"Processor.Once": func(sc scenario, p *probe, _ context.Context) *subject { return &subject{tErr, obsPr(p.processor().Once())} },
	"Handler.Once":   func(sc scenario, p *probe, _ context.Context) *subject { return &subject{tNone, obsH(p.handler().Once())} },
	"Future.Once":    func(sc scenario, p *probe, _ context.Context) *subject { return &subject{tVal, obsF(p.future().Once())} },
	"adt.Once.Resolve": func(sc scenario, p *probe, _ context.Context) *subject {
		o := adt.NewOnce(func() int { return p.future()() })
		return &subject{tVal, obsF(o.Resolve)}
	},
	"adt.Once.Do": func(sc scenario, p *probe, _ context.Context) *subject {
		o := &adt.Once[int]{}
		f := func() int { return p.future()() }
		return &subject{tVal, obsF(func() int { o.Do(f); return o.Resolve() })}
	},
	// Do on its own: a caller of Do is a caller of the once-wrapped function too (no Resolve that would
	// hide an early return of Do behind its own wait)
	"adt.Once.DoOnly": func(sc scenario, p *probe, _ context.Context) *subject {
		o := &adt.Once[int]{}
		f := func() int { return p.future()() }
		return &subject{tNone, func(int, context.Context) any { o.Do(f); return "-" }}
	},
	"adt.Mnemonize": func(sc scenario, p *probe, _ context.Context) *subject {
		return &subject{tVal, obsF(adt.Mnemonize(func() int { return p.future()() }))}
	},
	"ft.Once": func(sc scenario, p *probe, _ context.Context) *subject {
		f := ft.Once(func() { p.run() })
		return &subject{tNone, func(int, context.Context) any { f(); return "-" }}
	},
	"ft.OnceDo": func(sc scenario, p *probe, _ context.Context) *subject {
		return &subject{tVal, obsF(ft.OnceDo(func() int { return p.future()() }))}
	},
	// stackings with the Once contract
	"Worker.Once.Lock":    func(sc scenario, p *probe, _ context.Context) *subject { return &subject{tErr, obsW(p.worker().Once().Lock())} },
	"Worker.Lock.Once":    func(sc scenario, p *probe, _ context.Context) *subject { return &subject{tErr, obsW(p.worker().Lock().Once())} },
	"Producer.Limit.Once": func(sc scenario, p *probe, _ context.Context) *subject { return &subject{tValErr, obsP(p.producer().Limit(3).Once())} },

	// ---- Limit (limitExec family)
	"Worker.Limit":    func(sc scenario, p *probe, _ context.Context) *subject { return &subject{tErr, obsW(p.worker().Limit(sc.N))} },
	"Processor.Limit": func(sc scenario, p *probe, _ context.Context) *subject { return &subject{tErr, obsPr(p.processor().Limit(sc.N))} },
	"Producer.Limit":  func(sc scenario, p *probe, _ context.Context) *subject { return &subject{tValErr, obsP(p.producer().Limit(sc.N))} },
	"Future.Limit":    func(sc scenario, p *probe, _ context.Context) *subject { return &subject{tVal, obsF(p.future().Limit(sc.N))} },
	"Worker.Limit.Lock": func(sc scenario, p *probe, _ context.Context) *subject {
		return &subject{tErr, obsW(p.worker().Limit(sc.N).Lock())}
	},
	"Worker.Lock.Limit": func(sc scenario, p *probe, _ context.Context) *subject {
		return &subject{tErr, obsW(p.worker().Lock().Limit(sc.N))}
	},
	// ---- Operation.Limit (count only)
	"Operation.Limit": func(sc scenario, p *probe, _ context.Context) *subject { return &subject{tNone, obsO(p.operation().Limit(sc.N))} },

	// ---- Lock / WithLock
	"Worker.Lock":    func(sc scenario, p *probe, _ context.Context) *subject { return &subject{tErr, obsW(p.worker().Lock())} },
	"Operation.Lock": func(sc scenario, p *probe, _ context.Context) *subject { return &subject{tNone, obsO(p.operation().Lock())} },
	"Producer.Lock":  func(sc scenario, p *probe, _ context.Context) *subject { return &subject{tValErr, obsP(p.producer().Lock())} },
	"Processor.Lock": func(sc scenario, p *probe, _ context.Context) *subject { return &subject{tErr, obsPr(p.processor().Lock())} },
	"Handler.Lock":   func(sc scenario, p *probe, _ context.Context) *subject { return &subject{tNone, obsH(p.handler().Lock())} },
	"Future.Lock":    func(sc scenario, p *probe, _ context.Context) *subject { return &subject{tVal, obsF(p.future().Lock())} },
	"Worker.WithLock": func(sc scenario, p *probe, _ context.Context) *subject {
		m := &sync.Mutex{}
		return &subject{tErr, alternate(obsW(p.worker().WithLock(m)), obsW(p.worker().WithLock(m)))}
	},
	"Operation.WithLock": func(sc scenario, p *probe, _ context.Context) *subject {
		m := &sync.Mutex{}
		return &subject{tNone, alternate(obsO(p.operation().WithLock(m)), obsO(p.operation().WithLock(m)))}
	},
	"Producer.WithLock": func(sc scenario, p *probe, _ context.Context) *subject {
		m := &sync.Mutex{}
		return &subject{tValErr, alternate(obsP(p.producer().WithLock(m)), obsP(p.producer().WithLock(m)))}
	},
	"Processor.WithLock": func(sc scenario, p *probe, _ context.Context) *subject {
		m := &sync.Mutex{}
		return &subject{tErr, alternate(obsPr(p.processor().WithLock(m)), obsPr(p.processor().WithLock(m)))}
	},
	"Handler.WithLock": func(sc scenario, p *probe, _ context.Context) *subject {
		m := &sync.Mutex{}
		return &subject{tNone, alternate(obsH(p.handler().WithLock(m)), obsH(p.handler().WithLock(m)))}
	},
	"Future.WithLock": func(sc scenario, p *probe, _ context.Context) *subject {
		m := &sync.Mutex{}
		return &subject{tVal, alternate(obsF(p.future().WithLock(m)), obsF(p.future().WithLock(m)))}
	},
	"Mixed.WithLock": func(sc scenario, p *probe, _ context.Context) *subject {
		m := &sync.Mutex{}
		return &subject{tNone, alternate(obsW(p.worker().WithLock(m)), obsP(p.producer().WithLock(m)),
			obsH(p.handler().WithLock(m)), obsO(p.operation().WithLock(m)), obsF(p.future().WithLock(m)),
			obsPr(p.processor().WithLock(m)))}
	},

	// ---- Signal / Launch / Background / StartGroup: construction starts the background execution(s);
	// call() is one waiter
	"Operation.Signal": func(sc scenario, p *probe, bg context.Context) *subject {
		ch := p.operation().Signal(bg)
		return &subject{tNone, func(int, context.Context) any { <-ch; return "-" }}
	},
	"Operation.Launch": func(sc scenario, p *probe, bg context.Context) *subject {
		return &subject{tNone, obsO(p.operation().Launch(bg))}
	},
	"Operation.Add": func(sc scenario, p *probe, bg context.Context) *subject {
		wg := &fun.WaitGroup{}
		p.operation().Add(bg, wg)
		return &subject{tNone, obsO(wg.Wait)}
	},
	"Operation.StartGroup": func(sc scenario, p *probe, bg context.Context) *subject {
		wg := &fun.WaitGroup{}
		p.operation().StartGroup(bg, wg, sc.M)
		return &subject{tNone, obsO(wg.Wait)}
	},
	"Worker.Signal": func(sc scenario, p *probe, bg context.Context) *subject {
		ch := p.worker().Signal(bg)
		return &subject{tErr, func(int, context.Context) any { return errSig(<-ch) }}
	},
	"Worker.Launch": func(sc scenario, p *probe, bg context.Context) *subject {
		return &subject{tErr, obsW(p.worker().Launch(bg))}
	},
	"Worker.Background": func(sc scenario, p *probe, bg context.Context) *subject {
		return &subject{tNone, obsO(p.worker().Background(bg, func(error) {}))}
	},
	"Worker.StartGroup": func(sc scenario, p *probe, bg context.Context) *subject {
		return &subject{tErr, obsW(p.worker().StartGroup(bg, sc.M))}
	},
	// Worker.Group: nothing starts at construction; the one waiter's call starts the m copies and waits
	"Worker.Group": func(sc scenario, p *probe, bg context.Context) *subject {
		return &subject{tErr, obsW(p.worker().Group(sc.M))}
	},
	"Producer.Launch": func(sc scenario, p *probe, bg context.Context) *subject {
		return &subject{tValErr, obsP(p.producer().Launch(bg))}
	},
	"Producer.Background": func(sc scenario, p *probe, bg context.Context) *subject {
		return &subject{tErr, obsW(p.producer().Background(bg, func(int) {}))}
	},
	"Processor.Background": func(sc scenario, p *probe, bg context.Context) *subject {
		return &subject{tErr, obsW(p.processor().Background(bg, 7))}
	},
	"Processor.Add": func(sc scenario, p *probe, bg context.Context) *subject {
		wg := &fun.WaitGroup{}
		p.processor().Add(bg, wg, func(error) {}, 7)
		return &subject{tNone, obsO(wg.Wait)}
	},
}

func build(sc scenario, p *probe, bg context.Context) (*subject, error) {
	b, ok := builders[sc.Kind]
	if !ok {
		return nil, fmt.Errorf("kind %q is not in the harness's constructor table", sc.Kind)
	}
	return b(sc, p, bg), nil
}

// ------------------------------------------------------------------ Retry

type retryResult struct {
	class string
	val   int
}

func classOf(err error) string {
	if err == nil {
		return "ok"
	}
	return "err"
}

func buildRetry(sc scenario, p *probe) (func(context.Context) any, error) {
	switch sc.Kind {
	case "Worker.Retry":
		w := p.worker().Retry(sc.N)
		return func(ctx context.Context) any { return retryResult{classOf(w(ctx)), 0} }, nil
	case "Processor.Retry":
		w := p.processor().Retry(sc.N, 7)
		return func(ctx context.Context) any { return retryResult{classOf(w(ctx)), 0} }, nil
	case "Producer.Retry":
		pr := p.producer().Retry(sc.N)
		return func(ctx context.Context) any { v, err := pr(ctx); return retryResult{classOf(err), v} }, nil
	}
	return nil, fmt.Errorf("kind %q is not in the harness's constructor table", sc.Kind)
}

// ------------------------------------------------------------------ Join / PreHook / PostHook

type hookLog struct {
	mu     sync.Mutex
	log    []string
	script map[string]string
	cancel context.CancelFunc
}

// take returns the parts run since the last call and clears the log (one call = one step).
func (h *hookLog) take() []string {
	h.mu.Lock()
	defer h.mu.Unlock()
	out := append([]string{}, h.log...)
	h.log = nil
	return out
}

// part runs part `name`: logs its start and produces its scripted outcome.
func (h *hookLog) part(name string) error {
	h.mu.Lock()
	h.log = append(h.log, name)
	r := h.script[name]
	h.mu.Unlock()
	switch r {
	case "err":
		return &execErr{0, "err"}
	case "panic":
		panic("part " + name + " panics")
	case "cancel":
		h.cancel()
	}
	return nil
}

func partNames(kind string) []string {
	switch {
	case strings.HasSuffix(kind, ".Join") || strings.HasSuffix(kind, ".Chain"):
		return []string{"a", "b", "c"}
	case strings.HasSuffix(kind, ".PreHook"):
		return []string{"h", "m"}
	}
	return []string{"m", "h"}
}

func buildHooks(sc scenario, h *hookLog) (func(context.Context), error) {
	wk := func(n string) fun.Worker { return func(context.Context) error { return h.part(n) } }
	op := func(n string) fun.Operation { return func(context.Context) { _ = h.part(n) } }
	pd := func(n string) fun.Producer[int] { return func(context.Context) (int, error) { return 1, h.part(n) } }
	pc := func(n string) fun.Processor[int] { return func(context.Context, int) error { return h.part(n) } }
	hd := func(n string) fun.Handler[int] { return func(int) { _ = h.part(n) } }
	fu := func(n string) fun.Future[int] { return func() int { _ = h.part(n); return 1 } }
	fn := func(n string) func() { return func() { _ = h.part(n) } }
	add := func(a, b int) int { return a + b }
	switch sc.Kind {
	case "Worker.Join":
		w := wk("a").Join(wk("b"), wk("c"))
		return func(ctx context.Context) { _ = w(ctx) }, nil
	case "Processor.Join":
		w := pc("a").Join(pc("b"), pc("c"))
		return func(ctx context.Context) { _ = w(ctx, 7) }, nil
	case "Operation.Join":
		return op("a").Join(op("b"), op("c")), nil
	case "Handler.Join":
		w := hd("a").Join(hd("b")).Join(hd("c"))
		return func(context.Context) { w(7) }, nil
	case "Handler.Chain":
		w := hd("a").Chain(hd("b"), hd("c"))
		return func(context.Context) { w(7) }, nil
	case "Future.Join":
		w := fu("a").Join(add, fu("b"), fu("c"))
		return func(context.Context) { _ = w() }, nil
	case "Worker.PreHook":
		w := wk("m").PreHook(op("h"))
		return func(ctx context.Context) { _ = w(ctx) }, nil
	case "Producer.PreHook":
		w := pd("m").PreHook(op("h"))
		return func(ctx context.Context) { _, _ = w(ctx) }, nil
	case "Processor.PreHook":
		w := pc("m").PreHook(op("h"))
		return func(ctx context.Context) { _ = w(ctx, 7) }, nil
	case "Operation.PreHook":
		return op("m").PreHook(op("h")), nil
	case "Future.PreHook":
		w := fu("m").PreHook(fn("h"))
		return func(context.Context) { _ = w() }, nil
	case "Handler.PreHook":
		w := hd("m").PreHook(hd("h"))
		return func(context.Context) { w(7) }, nil
	case "Worker.PostHook":
		w := wk("m").PostHook(fn("h"))
		return func(ctx context.Context) { _ = w(ctx) }, nil
	case "Producer.PostHook":
		w := pd("m").PostHook(fn("h"))
		return func(ctx context.Context) { _, _ = w(ctx) }, nil
	case "Processor.PostHook":
		w := pc("m").PostHook(fn("h"))
		return func(ctx context.Context) { _ = w(ctx, 7) }, nil
	case "Operation.PostHook":
		return op("m").PostHook(fn("h")), nil
	case "Future.PostHook":
		w := fu("m").PostHook(fn("h"))
		return func(context.Context) { _ = w() }, nil
	}
	return nil, fmt.Errorf("kind %q is not in the harness's constructor table", sc.Kind)
}

// buildPJoin: Producer.Join of two scripted producers (a result beyond a script is io.EOF).
func buildPJoin(sc scenario, h *hookLog) func(context.Context) {
	var sa, sb []string
	second := false
	for _, r := range sc.Script {
		switch {
		case r == "|":
			second = true
		case second:
			sb = append(sb, r)
		default:
			sa = append(sa, r)
		}
	}
	mk := func(name string, script []string) fun.Producer[int] {
		i := 0
		return func(context.Context) (int, error) {
			h.mu.Lock()
			h.log = append(h.log, name)
			r := "eof"
			if i < len(script) {
				r = script[i]
			}
			i++
			h.mu.Unlock()
			switch r {
			case "ok":
				return i, nil
			case "eof":
				return 0, io.EOF
			}
			return 0, &execErr{i, "err"}
		}
	}
	j := mk("a", sa).Join(mk("b", sb))
	return func(ctx context.Context) { _, _ = j(ctx) }
}

// kindTable lists every kind the harness can construct (checked against the spec's table by c15.py).
func kindTable() []string {
	var out []string
	for k := range builders {
		out = append(out, k)
	}
	for _, k := range []string{"Worker.Retry", "Processor.Retry", "Producer.Retry", "Producer.Join",
		"Worker.Join", "Processor.Join", "Operation.Join", "Handler.Join", "Handler.Chain", "Future.Join",
		"Worker.PreHook", "Producer.PreHook", "Processor.PreHook", "Operation.PreHook", "Future.PreHook", "Handler.PreHook",
		"Worker.PostHook", "Producer.PostHook", "Processor.PostHook", "Operation.PostHook", "Future.PostHook"} {
		out = append(out, k)
	}
	sort.Strings(out)
	return out
}
