package main

import (
	"context"
	"fmt"
	"runtime"
	"strings"
	"sync"
	"sync/atomic"

	"verif/harness/rt"
)

// families for the un-stepped recorder: real concurrency, no gates, the Go scheduler picks the
// interleaving.  (Producer.Launch is replay-only: which waiter gets which value is not logged.)
var recordKinds = map[string][]string{
	"once": {"Worker.Once", "Operation.Once", "Producer.Once", "Processor.Once", "Handler.Once", "Future.Once",
		"adt.Once.Resolve", "adt.Once.Do", "adt.Once.DoOnly", "adt.Mnemonize", "ft.Once", "ft.OnceDo", "Worker.Once.Lock", "Worker.Lock.Once",
		"Producer.Limit.Once"},
	"limit":   {"Worker.Limit", "Processor.Limit", "Producer.Limit", "Future.Limit", "Worker.Limit.Lock", "Worker.Lock.Limit"},
	"oplimit": {"Operation.Limit"},
	"lock": {"Worker.Lock", "Operation.Lock", "Producer.Lock", "Processor.Lock", "Handler.Lock", "Future.Lock",
		"Worker.WithLock", "Operation.WithLock", "Producer.WithLock", "Processor.WithLock", "Handler.WithLock",
		"Future.WithLock", "Mixed.WithLock"},
	"launch": {"Operation.Signal", "Operation.Launch", "Operation.Add", "Operation.StartGroup", "Worker.Signal",
		"Worker.Launch", "Worker.Background", "Worker.StartGroup", "Worker.Group", "Producer.Background",
		"Processor.Background", "Processor.Add"},
}

// fromOf maps an observation back to the execution whose result it is (0: not identifiable,
// -1: the caller got the panic).
func fromOf(sig string) int {
	if sig == "panic" {
		return -1
	}
	var k int
	switch {
	case strings.HasPrefix(sig, "v"):
		fmt.Sscanf(sig, "v%d", &k)
	case strings.HasPrefix(sig, "E"):
		fmt.Sscanf(sig, "E%d:", &k)
	}
	return k
}

// record runs n random concurrent scenarios and prints one history per line: {"hist":[events]}.
// Events: init / call / enter / exit / ret / end (see spec/wrappers/WrappersTrace.tla).
func record(n int, seed int64) {
	rng := rt.NewRand(seed)
	fams := []string{"once", "once", "limit", "limit", "limit", "oplimit", "lock", "launch", "launch"}
	classes := []string{"ok", "err", "skip", "eof", "ctx", "panic"}
	for i := 0; i < n; i++ {
		runtime.GOMAXPROCS(1 + rng.Intn(8))
		fam := fams[rng.Intn(len(fams))]
		kinds := recordKinds[fam]
		sc := scenario{Fam: fam, Kind: kinds[rng.Intn(len(kinds))], N: 1 + rng.Intn(3), M: 1}
		if strings.HasSuffix(sc.Kind, "Group") {
			sc.M = 1 + rng.Intn(3)
		}
		for j := 0; j < 4; j++ {
			c := classes[rng.Intn(len(classes))]
			if rng.Intn(3) > 0 && c == "panic" { // keep panics rarer: most contracts are exact without them
				c = "ok"
			}
			if fam == "launch" && c == "panic" { // a panic in a background goroutine kills the process (documented)
				c = "err"
			}
			sc.Script = append(sc.Script, c)
		}
		rec := &rt.Recorder{}
		p := &probe{script: sc.Script, rec: rec, yields: rng.Intn(30)}
		bg, bgCancel := context.WithCancel(context.Background())
		rec.Log(rt.Event{"ev": "init", "fam": sc.Fam, "kind": sc.Kind, "n": sc.N, "m": sc.M})
		sub, err := build(sc, p, bg)
		if err != nil {
			panic(err)
		}
		nthreads := 2 + rng.Intn(4)
		var id atomic.Int64
		var calls atomic.Int64
		var sw sync.WaitGroup
		start := make(chan struct{})
		for t := 0; t < nthreads; t++ {
			r := rt.NewRand(rng.Int63())
			ncalls := 1 + r.Intn(3)
			if fam == "launch" {
				ncalls = 1
			}
			sw.Add(1)
			go func() {
				defer sw.Done()
				<-start
				for j := 0; j < ncalls; j++ {
					for y := r.Intn(10); y > 0; y-- {
						runtime.Gosched()
					}
					k := id.Add(1)
					calls.Add(1)
					rec.Log(rt.Event{"ev": "call", "id": k})
					sig := "panic"
					func() {
						defer func() { _ = recover() }()
						sig = fmt.Sprint(sub.call(int(k), context.Background()))
					}()
					rec.Log(rt.Event{"ev": "ret", "id": k, "from": fromOf(sig), "live": 1})
				}
			}()
		}
		close(start)
		sw.Wait()
		rec.Log(rt.Event{"ev": "end", "calls": calls.Load()})
		p.teardown()
		bgCancel()
		quiesce()
		rt.Emit(map[string]any{"hist": rec.Events()})
	}
}
