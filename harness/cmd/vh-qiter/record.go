package main

import (
	"context"
	"fmt"
	"math/rand"
	"runtime"
	"sort"
	"sync"

	"verif/harness/rt"
)

// record runs n random scenarios with real overlap - iterator goroutine(s), an adder, optionally a remover, a
// closer, a canceller and (Queue with a quota) a BlockingAdd caller - and prints the call/return histories.
// TLC (IterTrace) decides whether a history is explainable; nothing is judged here.
func record(n int, seed int64) {
	rng := rand.New(rand.NewSource(seed))
	apis := []string{"producer", "readone", "next"}
	for h := 0; h < n; h++ {
		runtime.GOMAXPROCS(1 + rng.Intn(8))
		kind, dir, trk := "queue", "fwd", "nolimit"
		hard, soft, credit := 0, 0, 0
		var blocking []bool
		switch rng.Intn(5) {
		case 0, 1:
			blocking = []bool{true, true}[:1+rng.Intn(2)]
			if rng.Intn(3) == 0 {
				trk, hard, soft, credit = "quota", 2+rng.Intn(2), 1, 1
			}
		default:
			kind = "deque"
			if rng.Intn(2) == 0 {
				dir = "rev"
			}
			// at most one blocking iterator: two waiters on one Deque cond busy-loop (DESIGN.md 3.3)
			blocking = [][]bool{{true}, {false}, {true, false}, {false, false}}[rng.Intn(4)]
			if rng.Intn(3) == 0 {
				// fixed capacity: the adder uses it as a ring buffer (Force pushes evict at the near end)
				trk, hard = "hard", 2+rng.Intn(2)
			}
		}
		c, err := newCont(kind, dir, trk, hard, soft, credit)
		if err != nil {
			panic(err)
		}
		c.viaD = rng.Intn(2) == 0
		rec := &rt.Recorder{}
		blk, api := map[string]any{}, map[string]any{}
		type itState struct {
			name      string
			it        *iter
			perCall   bool // bare producer: a fresh context for every call
			ctx       context.Context
			cancel    context.CancelFunc
			cur       int // id of the call in flight, 0 if none
			cancelled bool
		}
		var its []*itState
		for k, b := range blocking {
			s := &itState{name: fmt.Sprintf("i%d", k+1)}
			a := apis[rng.Intn(3)]
			s.it, s.perCall = c.newIter(b, a), a == "producer"
			s.ctx, s.cancel = context.WithCancel(context.Background())
			blk[s.name], api[s.name] = b, a
			its = append(its, s)
		}
		hist := []rt.Event{{"ev": "reset", "kind": kind, "dir": dir, "trk": trk, "hard": hard, "soft": soft,
			"credit": credit, "blocking": blk, "api": api, "rec_n": n, "rec_seed": seed, "rec_index": h}}
		var mu sync.Mutex
		nextID := 0
		newID := func() int { nextID++; return nextID } // callers hold mu
		yield := func(r *rand.Rand, max int) {
			for y := r.Intn(max + 1); y > 0; y-- {
				runtime.Gosched()
			}
		}
		guard := func(f func() string) (res string) {
			defer func() {
				if p := recover(); p != nil {
					res = fmt.Sprintf("panic:%v", p)
				}
			}()
			return f()
		}
		var clients, blockers sync.WaitGroup
		start := make(chan struct{})
		// simple operation issued by a client goroutine
		do := func(op, arg string, f func() string) {
			mu.Lock()
			id := newID()
			rec.Log(rt.Event{"ev": "call", "id": id, "op": op, "arg": arg})
			mu.Unlock()
			res := guard(f)
			rec.Log(rt.Event{"ev": "ret", "id": id, "res": res})
		}
		for _, s := range its {
			s := s
			r := rand.New(rand.NewSource(rng.Int63()))
			blockers.Add(1)
			go func() {
				defer blockers.Done()
				<-start
				for j, calls := 0, 2+r.Intn(6); j < calls; j++ {
					yield(r, 6)
					mu.Lock()
					id := newID()
					if s.perCall {
						s.ctx, s.cancel = context.WithCancel(context.Background())
					}
					ctx := s.ctx
					s.cur = id
					rec.Log(rt.Event{"ev": "call", "id": id, "op": "next", "arg": s.name})
					if s.cancelled && !s.perCall {
						// the iterator's one context is already cancelled: this call is made with a cancelled context
						rec.Log(rt.Event{"ev": "cancel", "id": id})
					}
					mu.Unlock()
					res := guard(func() string { return s.it.next(ctx) })
					mu.Lock()
					s.cur = 0
					rec.Log(rt.Event{"ev": "ret", "id": id, "res": res})
					mu.Unlock()
					if res == "eof" || len(res) > 4 && (res[:4] == "err:" || res[:5] == "panic") || (res == "ctx" && !s.perCall) {
						return
					}
				}
			}()
		}
		{ // adder
			r := rand.New(rand.NewSource(rng.Int63()))
			burst := rng.Intn(4) // 1: Close right after the last Add; 2: some Adds followed at once by a removal
			clients.Add(1)
			go func() {
				defer clients.Done()
				<-start
				m := 1 + r.Intn(5)
				if trk == "hard" {
					m += 2 // enough to wrap around
				}
				for j := 0; j < m; j++ {
					yield(r, 8)
					mu.Lock()
					v := fmt.Sprintf("v%d", nextID+1)
					mu.Unlock()
					v = v + "a" + fmt.Sprint(j) // distinct whatever ids interleave
					if trk == "hard" && r.Intn(3) > 0 {
						do("fadd", v, func() string { return c.fadd(v) })
					} else {
						do("add", v, func() string { return c.add(v) })
					}
					// bursts: a second operation back to back, while the calls woken by the Add are on their way
					switch {
					case burst == 1 && j == m-1:
						do("close", "", c.close)
					case burst == 2 && r.Intn(2) == 0:
						do("popn", "", func() string { return c.pop("n") })
					}
				}
			}()
		}
		if rng.Intn(2) == 0 { // remover
			r := rand.New(rand.NewSource(rng.Int63()))
			clients.Add(1)
			go func() {
				defer clients.Done()
				<-start
				for j, m := 0, 1+r.Intn(3); j < m; j++ {
					yield(r, 12)
					end := "n"
					if kind == "deque" && r.Intn(2) == 0 {
						end = "f"
					}
					do("pop"+end, "", func() string { return c.pop(end) })
				}
			}()
		}
		if rng.Intn(5) < 2 { // closer
			r := rand.New(rand.NewSource(rng.Int63()))
			clients.Add(1)
			go func() {
				defer clients.Done()
				<-start
				yield(r, 25)
				do("close", "", c.close)
			}()
		}
		if rng.Intn(2) == 0 { // canceller
			r := rand.New(rand.NewSource(rng.Int63()))
			clients.Add(1)
			go func() {
				defer clients.Done()
				<-start
				yield(r, 20)
				s := its[r.Intn(len(its))]
				mu.Lock()
				if s.cur != 0 {
					rec.Log(rt.Event{"ev": "cancel", "id": s.cur})
					s.cancelled = true
					s.cancel()
				}
				mu.Unlock()
			}()
		}
		var baddCancel []context.CancelFunc
		var baddIDs []int
		if trk == "quota" && rng.Intn(3) > 0 { // BlockingAdd caller: shares nupdates with the iterators
			r := rand.New(rand.NewSource(rng.Int63()))
			blockers.Add(1)
			go func() {
				defer blockers.Done()
				<-start
				for j, m := 0, 1+r.Intn(2); j < m; j++ {
					yield(r, 8)
					ctx, cancel := context.WithCancel(context.Background())
					mu.Lock()
					id := newID()
					v := fmt.Sprintf("b%d", id)
					baddCancel, baddIDs = append(baddCancel, cancel), append(baddIDs, id)
					rec.Log(rt.Event{"ev": "call", "id": id, "op": "badd", "arg": v})
					mu.Unlock()
					res := guard(func() string { return c.badd(ctx, v) })
					rec.Log(rt.Event{"ev": "ret", "id": id, "res": res})
					if res != "ok" {
						return
					}
				}
			}()
		}
		close(start)
		clients.Wait()
		quiet := func() bool {
			if _, err := rt.Quiesce(); err != nil {
				return false
			}
			mu.Lock()
			defer mu.Unlock()
			pend := map[int]bool{}
			for _, e := range rec.Events() {
				switch e["ev"] {
				case "call":
					pend[e["id"].(int)] = true
				case "ret":
					delete(pend, e["id"].(int))
				}
			}
			ids := []int{}
			for k := range pend {
				ids = append(ids, k)
			}
			sort.Ints(ids)
			rec.Log(rt.Event{"ev": "quiescent", "blocked": ids})
			return true
		}
		ok := quiet()
		// release everybody: close (every blocked call must return), then cancel whatever is left
		do("close", "", c.close)
		ok = quiet() && ok
		mu.Lock()
		for _, s := range its {
			if s.cur != 0 {
				rec.Log(rt.Event{"ev": "cancel", "id": s.cur})
			}
			s.cancelled = true
			s.cancel()
		}
		for k, cf := range baddCancel {
			rec.Log(rt.Event{"ev": "cancel", "id": baddIDs[k]})
			cf()
		}
		mu.Unlock()
		blockers.Wait()
		if ok {
			rt.Emit(map[string]any{"hist": append(hist, rec.Events()...)})
		} else {
			rt.Emit(map[string]any{"inconclusive": "no quiescent point"})
		}
		rt.Flush()
	}
}
