package main

import (
	"context"
	"fmt"
	"strings"

	"verif/harness/rt"
)

// one element of IterStep's hist: the driver step and what C20 allows at the following quiescent point
type obsExp struct {
	T        string   `json:"t"`  // "i1" | "i2" | "badd"
	Br       string   `json:"br"` // the outcome the behaviour continues with: "blocked" or a result
	Vals     []string `json:"vals"`
	Errs     []string `json:"errs"`
	MayBlock bool     `json:"mayblock"`
}

type step struct {
	Op       string   `json:"op"`
	Arg      string   `json:"arg"`
	It       string   `json:"it"`
	Hold     bool     `json:"hold"`
	Res      string   `json:"res"`
	Ralw     []string `json:"ralw"`
	Obs      []obsExp `json:"obs"`
	Blocking []bool   `json:"blocking"`
	Hard     int      `json:"hard"`
	Soft     int      `json:"soft"`
	Credit   int      `json:"credit"`
}

type schedInput struct {
	N   int    `json:"n"`
	API string `json:"api"` // "producer" | "readone" | "next" | "mixed"
	Beh []step `json:"beh"`
}

type call struct {
	op     *rt.Op
	cancel context.CancelFunc
}

func in(x string, set []string) bool {
	for _, s := range set {
		if s == x {
			return true
		}
	}
	return false
}

func kindName(c *cont) string {
	if c.kind == "queue" {
		return "queue"
	}
	return "deque-" + c.dir
}

// runSched executes one schedule.  Every operation runs in its own goroutine and is judged at the next
// quiescent point against the allowed set printed by TLC; nothing is judged by elapsed time.
func runSched(inp schedInput) (out map[string]any) {
	s0 := inp.Beh[0]
	c, err := newCont(s0.Arg, s0.It, s0.Res, s0.Hard, s0.Soft, s0.Credit)
	if err != nil {
		return map[string]any{"n": inp.N, "ok": true, "inconclusive": "container rejected: " + err.Error()}
	}
	c.viaD = inp.N%2 == 1
	apis := []string{"producer", "readone", "next"}
	iters := map[string]*iter{}
	ctxs := map[string]context.Context{}
	cancels := map[string]context.CancelFunc{}
	for k, b := range s0.Blocking {
		name := fmt.Sprintf("i%d", k+1)
		api := inp.API
		if api == "" || api == "mixed" {
			api = apis[(inp.N+k)%3]
		}
		iters[name] = c.newIter(b, api)
		// one context per iterator: fun.Iterator binds the producer to the context of its first call
		ctxs[name], cancels[name] = context.WithCancel(context.Background())
	}
	pend := map[string]*call{} // thread -> its pending call
	var trace []map[string]any
	defer func() {
		release()
		for _, cf := range cancels {
			cf()
		}
		for _, p := range pend {
			if p.cancel != nil {
				p.cancel()
			}
		}
		c.close()
		rt.Quiesce()
	}()
	fail := func(k int, key, what string) map[string]any {
		return map[string]any{"n": inp.N, "ok": false, "key": "qiter/" + kindName(c) + "/" + key, "step": k,
			"what": fmt.Sprintf("step %d (%s %s%s): %s", k, inp.Beh[k].Op, inp.Beh[k].Arg, inp.Beh[k].It, what), "trace": trace}
	}
	holding := false
	pushed := map[string]bool{} // every value the schedule (printed by TLC) has handed to the container so far
	for k := 1; k < len(inp.Beh); k++ {
		st := inp.Beh[k]
		if st.Arg != "" && st.Op != "pop" {
			pushed[st.Arg] = true
		}
		var drv *rt.Op // the driver's own operation of this step, if it has a result
		switch st.Op {
		case "next":
			it, ctx := iters[st.It], ctxs[st.It]
			if st.Hold {
				arm()
			}
			pend[st.It] = &call{op: rt.Start(k, func() any { return it.next(ctx) })}
		case "badd":
			ctx, cancel := context.WithCancel(context.Background())
			v := st.Arg
			pend["badd"] = &call{cancel: cancel, op: rt.Start(k, func() any { return c.badd(ctx, v) })}
		case "cancel":
			if st.It == "badd" {
				pend["badd"].cancel()
			} else {
				cancels[st.It]()
			}
		case "add":
			v := st.Arg
			drv = rt.Start(k, func() any { return c.add(v) })
		case "fadd":
			v := st.Arg
			drv = rt.Start(k, func() any { return c.fadd(v) })
		case "pop":
			end := st.Arg
			drv = rt.Start(k, func() any { return c.pop(end) })
		case "close":
			drv = rt.Start(k, func() any { return c.close() })
		case "add+close", "add+pop", "pop+add":
			// two operations back to back from one goroutine, no quiescent point in between
			ops, v := strings.Split(st.Op, "+"), st.Arg
			drv = rt.Start(k, func() any {
				var rs []string
				for _, o := range ops {
					switch o {
					case "add":
						rs = append(rs, c.add(v))
					case "pop":
						rs = append(rs, c.pop("n"))
					case "close":
						rs = append(rs, c.close())
					}
				}
				return strings.Join(rs, "+")
			})
		default:
			panic("unknown step " + st.Op)
		}
		if _, err := rt.Quiesce(); err != nil {
			return map[string]any{"n": inp.N, "ok": true, "inconclusive": fmt.Sprintf("no quiescence after step %d", k)}
		}
		at := ""
		if holding {
			// this step was issued while a call was held at a yield point: let it go on now
			release()
			holding = false
			if _, err := rt.Quiesce(); err != nil {
				return map[string]any{"n": inp.N, "ok": true, "inconclusive": fmt.Sprintf("no quiescence after release at step %d", k)}
			}
		} else if st.Hold {
			if at = heldAt(); at != "" {
				holding = true
			} else {
				release() // no yield point reached: nothing to hold
			}
		}
		// ---- observe
		row := map[string]any{"step": k, "op": st.Op}
		if at != "" {
			row["held_at"] = at
		}
		diverged := false
		if drv != nil {
			if !drv.Done() {
				trace = append(trace, row)
				return fail(k, st.Op+"/blocked", "the operation has not returned at quiescence")
			}
			r := fmt.Sprint(drv.Res)
			row["res"] = r
			if !in(r, st.Ralw) {
				trace = append(trace, row)
				key := st.Op + "/unexpected-result"
				if strings.HasPrefix(r, "panic:") {
					key = st.Op + "/panic"
				}
				return fail(k, key, fmt.Sprintf("returned %q, the spec allows %v", r, st.Ralw))
			}
			diverged = diverged || r != st.Res
		}
		for _, e := range st.Obs {
			p := pend[e.T]
			if p == nil {
				return map[string]any{"n": inp.N, "ok": true, "inconclusive": "schedule observes a call that was never started: " + e.T}
			}
			what := "next"
			if e.T == "badd" {
				what = "badd"
			}
			if !p.op.Done() {
				row[e.T] = "blocked"
				if !e.MayBlock {
					trace = append(trace, row)
					// why it is obliged to return: (concurrent removals: values and "eof" both allowed) closed or
					// cancelled; otherwise an unseen item, a cancelled context, a closed container
					key := what + "/stuck-after-cancel"
					tainted := len(e.Vals) > 0 && in("eof", e.Errs)
					switch {
					case tainted && !in("ctx", e.Errs):
						key = what + "/stuck-after-close"
					case tainted:
					case len(e.Vals) > 0:
						key = what + "/stuck-with-unseen-item"
					case in("ctx", e.Errs):
					case in("eof", e.Errs) || in("closed", e.Errs):
						key = what + "/stuck-after-close"
					case in("ok", e.Errs):
						key = what + "/stuck-with-free-capacity"
					}
					return fail(k, key, fmt.Sprintf("%s is still blocked at quiescence; the spec obliges it to return one of %v%v", e.T, e.Vals, e.Errs))
				}
				diverged = diverged || e.Br != "blocked"
				continue
			}
			r := fmt.Sprint(p.op.Res)
			row[e.T] = r
			delete(pend, e.T)
			if !in(r, e.Vals) && !in(r, e.Errs) {
				trace = append(trace, row)
				key := what + "/wrong-value"
				switch {
				case what == "next" && !pushed[r] && !strings.HasPrefix(r, "panic:") && r != "eof" && r != "ctx" && !strings.HasPrefix(r, "err:"):
					key = what + "/value-never-added"
				case strings.HasPrefix(r, "panic:"):
					key = what + "/panic"
				case r == "eof":
					key = what + "/premature-eof"
				case r == "ctx":
					key = what + "/unexpected-ctx"
				case strings.HasPrefix(r, "err:") || e.T == "badd":
					key = what + "/unexpected-result"
				}
				return fail(k, key, fmt.Sprintf("%s returned %q; the spec allows values %v, results %v, blocked=%v", e.T, r, e.Vals, e.Errs, e.MayBlock))
			}
			diverged = diverged || r != e.Br
		}
		trace = append(trace, row)
		if diverged {
			// allowed, but not the outcome this behaviour continues with (the property leaves a choice here)
			return map[string]any{"n": inp.N, "ok": true, "truncated": k, "trace": trace}
		}
	}
	return map[string]any{"n": inp.N, "ok": true, "trace": trace}
}
