// vh-qiter binds spec/qiter (IterStep, IterTrace; abstract meaning IterAbs) to the non-destructive
// iterators of pubsub.Queue and pubsub.Deque (property C20).
//
//	vh-qiter sched  < {"n":i,"api":..,"beh":[steps]}   execute quiescence-stepped schedules of IterStep and
//	                                                    judge every observation against the allowed set TLC printed
//	vh-qiter record N SEED                             random concurrent histories for IterTrace
package main

import (
	"context"
	"encoding/json"
	"errors"
	"fmt"
	"io"
	"os"
	"strconv"
	"sync"

	"github.com/tychoish/fun"
	"github.com/tychoish/fun/pubsub"
	"verif/harness/rt"
)

// ---------------------------------------------------------------- one-shot yield-point gate

// The yield points carry no claim about the code; an armed gate holds the FIRST goroutine that arrives at one of
// the armed points and lets every later arrival pass.
var gate struct {
	mu    sync.Mutex
	armed map[string]bool
	held  chan struct{}
	at    string
}

var points = []string{"pubsub.wait.before-cond-wait", "pubsub.Queue.Producer.unlocked"}

func hook(p string) {
	gate.mu.Lock()
	if !gate.armed[p] || gate.held != nil {
		gate.mu.Unlock()
		return
	}
	c := make(chan struct{})
	gate.held, gate.at, gate.armed = c, p, map[string]bool{}
	gate.mu.Unlock()
	<-c
}

func arm() {
	gate.mu.Lock()
	gate.armed = map[string]bool{}
	for _, p := range points {
		gate.armed[p] = true
	}
	gate.mu.Unlock()
}

// heldAt reports the yield point at which a goroutine is currently held ("" if none).
func heldAt() string {
	gate.mu.Lock()
	defer gate.mu.Unlock()
	if gate.held == nil {
		return ""
	}
	return gate.at
}

// release disarms the gate and lets the held goroutine continue.
func release() {
	gate.mu.Lock()
	gate.armed = map[string]bool{}
	if gate.held != nil {
		close(gate.held)
		gate.held = nil
	}
	gate.mu.Unlock()
}

// ---------------------------------------------------------------- containers and iterators behind the spec's vocabulary

type cont struct {
	kind string // "queue" | "deque"
	dir  string // "fwd" | "rev" (iteration direction of every iterator of the run)
	q    *pubsub.Queue[string]
	dq   *pubsub.Deque[string]
	nb   pubsub.Distributor[string] // DistributorNonBlocking: Send = ForcePushBack
	viaD bool                       // forward Force pushes go through nb.Send
}

func newCont(kind, dir, trk string, hard, soft, credit int) (*cont, error) {
	c := &cont{kind: kind, dir: dir}
	var err error
	if kind == "queue" {
		if trk == "nolimit" {
			c.q = pubsub.NewUnlimitedQueue[string]()
		} else {
			c.q, err = pubsub.NewQueue[string](pubsub.QueueOptions{HardLimit: hard, SoftQuota: soft, BurstCredit: float64(credit)})
		}
		return c, err
	}
	if trk == "hard" {
		c.dq, err = pubsub.NewDeque[string](pubsub.DequeOptions{Capacity: hard})
	} else {
		c.dq, err = pubsub.NewDeque[string](pubsub.DequeOptions{Unlimited: true})
	}
	if err == nil {
		c.nb = c.dq.DistributorNonBlocking()
	}
	return c, err
}

func errName(err error) string {
	switch {
	case err == nil:
		return "ok"
	case errors.Is(err, pubsub.ErrQueueFull):
		return "full"
	case errors.Is(err, pubsub.ErrQueueNoCredit):
		return "nocredit"
	case errors.Is(err, pubsub.ErrQueueClosed):
		return "closed"
	case errors.Is(err, context.Canceled), errors.Is(err, context.DeadlineExceeded):
		return "ctx"
	}
	return "err:" + err.Error()
}

// add pushes at the far end in iteration direction.
func (c *cont) add(v string) string {
	switch {
	case c.kind == "queue":
		return errName(c.q.Add(v))
	case c.dir == "fwd":
		return errName(c.dq.PushBack(v))
	}
	return errName(c.dq.PushFront(v))
}

// fadd is a Force push at the far end in iteration direction: on a deque at capacity it evicts the item at the
// near end first (ForcePushBack / DistributorNonBlocking.Send for forward, ForcePushFront for reverse iteration).
func (c *cont) fadd(v string) string {
	switch {
	case c.dir == "fwd" && c.viaD:
		return errName(c.nb.Send(context.Background(), v))
	case c.dir == "fwd":
		return errName(c.dq.ForcePushBack(v))
	}
	return errName(c.dq.ForcePushFront(v))
}

// pop removes at the near ("n") or far ("f") end in iteration direction.
func (c *cont) pop(end string) string {
	var v string
	var ok bool
	switch {
	case c.kind == "queue":
		v, ok = c.q.Remove()
	case (c.dir == "fwd") == (end == "n"):
		v, ok = c.dq.PopFront()
	default:
		v, ok = c.dq.PopBack()
	}
	if !ok {
		return "none"
	}
	return v
}

func (c *cont) close() string {
	if c.kind == "queue" {
		return errName(c.q.Close())
	}
	return errName(c.dq.Close())
}

func (c *cont) badd(ctx context.Context, v string) string { return errName(c.q.BlockingAdd(ctx, v)) }

// iter is one iterator under test behind one of three APIs: the bare producer function, fun.Iterator.ReadOne,
// fun.Iterator.Next + Value.
type iter struct {
	api  string
	prod fun.Producer[string]
	it   *fun.Iterator[string]
}

func (c *cont) newIter(blocking bool, api string) *iter {
	var p fun.Producer[string]
	var it *fun.Iterator[string]
	switch {
	case c.kind == "queue":
		if api == "producer" {
			p = c.q.Producer()
		} else {
			it = c.q.Iterator()
		}
	case blocking && c.dir == "fwd":
		p = c.dq.ProducerBlocking()
	case blocking:
		p = c.dq.ProducerReverseBlocking()
	case c.dir == "fwd":
		if api == "producer" {
			p = c.dq.Producer()
		} else {
			it = c.dq.Iterator()
		}
	default:
		if api == "producer" {
			p = c.dq.ProducerReverse()
		} else {
			it = c.dq.IteratorReverse()
		}
	}
	if api != "producer" && it == nil {
		it = p.Iterator()
	}
	return &iter{api: api, prod: p, it: it}
}

// next performs one call and maps the outcome to the spec's vocabulary: the value, "eof" (an error that is
// io.EOF, which includes ErrQueueClosed), "ctx" (a context error), "err:..." anything else.
func (i *iter) next(ctx context.Context) string {
	var v string
	var err error
	switch i.api {
	case "producer":
		v, err = i.prod(ctx)
	case "readone":
		v, err = i.it.ReadOne(ctx)
	default:
		if i.it.Next(ctx) {
			return i.it.Value()
		}
		// Next reports only false: the iteration ended or the context was cancelled
		if ctx.Err() != nil {
			return "ctx"
		}
		return "eof"
	}
	switch {
	case err == nil:
		return v
	case errors.Is(err, io.EOF):
		return "eof"
	case errors.Is(err, context.Canceled), errors.Is(err, context.DeadlineExceeded):
		return "ctx"
	}
	return "err:" + err.Error()
}

func main() {
	pubsub.VerifHook = hook
	if len(os.Args) < 2 {
		fmt.Fprintln(os.Stderr, "usage: vh-qiter sched|record N SEED")
		os.Exit(2)
	}
	switch os.Args[1] {
	case "sched":
		rt.ReadLines(func(_ int, raw json.RawMessage) {
			var in schedInput
			if err := json.Unmarshal(raw, &in); err != nil {
				panic(err)
			}
			rt.Emit(map[string]any{"begin": in.N})
			rt.Flush()
			rt.Emit(runSched(in))
			rt.Flush()
		})
	case "record":
		n, _ := strconv.Atoi(os.Args[2])
		seed, _ := strconv.Atoi(os.Args[3])
		record(n, int64(seed))
	}
	rt.Flush()
}
