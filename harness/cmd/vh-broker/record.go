package main

import (
	"math/rand"
	"runtime"
	"strconv"
	"sync"
	"sync/atomic"
	"time"

	"verif/harness/rt"
)

// recordConfigs: every back-end and option set (cap 0 = rendezvous channel / unlimited container).
func recordConfigs() []step {
	var out []step
	for _, be := range []step{{A: "chan"}, {A: "chan", N: 1}, {A: "chan", N: 2}, {A: "queue"}, {A: "queue", N: 2}, {A: "deque"},
		{A: "deque", N: 2}, {A: "nbdeque", N: 2}, {A: "lifo", N: 1}, {A: "lifo", N: 3}} {
		for _, par := range []bool{false, true} {
			for _, w := range []int{0, 1, 2, 3, 8} {
				for _, buf := range []int{0, 0, 1} {
					c := be
					c.Op, c.Par, c.W, c.Buf = "new", par, w, buf
					out = append(out, c)
				}
			}
		}
	}
	return out
}

func yield(r *rand.Rand, max int) {
	for y := r.Intn(max + 1); y > 0; y-- {
		runtime.Gosched()
	}
}

// record runs n random scenarios with real overlap: publishers, subscribers that keep receiving and
// unsubscribe / are replaced at random moments, Stats calls whose context is cancelled at random moments,
// then a live quiescent observation, shutdown (Stop / parent cancel, Wait before or after), and a final one.
func record(n int, seed int64, only string) {
	rng := rand.New(rand.NewSource(seed))
	cfgs := recordConfigs()
	if only != "" {
		var f []step
		for _, c := range cfgs {
			if c.A == only {
				f = append(f, c)
			}
		}
		cfgs = f
	}
	for i := 0; i < n; i++ {
		runtime.GOMAXPROCS(1 + rng.Intn(8))
		cfg := cfgs[rng.Intn(len(cfgs))]
		w, err := newWorld(cfg)
		if err != nil {
			continue
		}
		hist := []rt.Event{w.resetEvent()}
		var ids atomic.Int64
		newID := func() int { return int(ids.Add(1)) * 100 }
		var sw sync.WaitGroup

		// subscribers: Subscribe, keep receiving for ever; some unsubscribe later (and keep receiving)
		nsubs := 1 + rng.Intn(3)
		// one run in three is a long stream to few subscribers: the dispatcher drains the distributor and goes
		// to wait many times while the event loop keeps adding (every message is one accept/receive race)
		long := rng.Intn(3) == 0
		if long {
			nsubs = 1 + rng.Intn(2)
		}
		subNames := []string{"s1", "s2", "s3", "s4", "s5", "s6"}
		var nameIdx atomic.Int64
		startSub := func(r *rand.Rand, unsubLater bool) {
			defer sw.Done()
			name := subNames[int(nameIdx.Add(1))-1]
			id := newID()
			w.subscribe(id, id/100, name, w.opCtx(id/100, false))
			s := w.sub(name)
			if s == nil {
				return
			}
			w.readOn(s)
			if unsubLater {
				yield(r, 60)
				id := newID()
				ctx := w.opCtx(id/100, false)
				w.call(id, id/100, "unsub", name, "")
				w.guarded(id, func() string { w.b.Unsubscribe(ctx, s.ch); return "ok" })
			}
		}
		for k := 0; k < nsubs; k++ {
			sw.Add(1)
			go startSub(rand.New(rand.NewSource(rng.Int63())), rng.Intn(3) == 0)
		}
		// a late subscriber
		if rng.Intn(2) == 0 {
			sw.Add(1)
			r := rand.New(rand.NewSource(rng.Int63()))
			go func() { yield(r, 40); startSub(r, r.Intn(3) == 0) }()
		}
		// publishers
		npubs := 1 + rng.Intn(2)
		for k := 0; k < npubs; k++ {
			name := []string{"p1", "p2"}[k]
			nmsg := 1 + rng.Intn(4)
			if long {
				nmsg = 12 + rng.Intn(24)
			}
			r := rand.New(rand.NewSource(rng.Int63()))
			sw.Add(1)
			go func() {
				defer sw.Done()
				yield(r, 30)
				for j := 1; j <= nmsg; j++ {
					id := newID()
					ctx := w.opCtx(id/100, false)
					msg := name + "." + strconv.Itoa(j)
					w.call(id, id/100, "pub", "", msg)
					w.guarded(id, func() string { w.b.Publish(ctx, msg); return "ok" })
					yield(r, 3)
				}
			}()
		}
		// Stats, sometimes with a context that is cancelled while the call is in flight
		if rng.Intn(2) == 0 {
			r := rand.New(rand.NewSource(rng.Int63()))
			sw.Add(1)
			go func() {
				defer sw.Done()
				yield(r, 30)
				id := newID()
				c := id / 100
				ctx := w.opCtx(c, false)
				if r.Intn(2) == 0 {
					go func() {
						yield(r, 6)
						w.mu.Lock()
						cancel := w.cancels[c]
						w.mu.Unlock()
						w.rec.Log(rt.Event{"ev": "cancel", "c": c})
						cancel()
					}()
				}
				w.call(id, c, "stats", "", "")
				w.guarded(id, func() string { _ = w.b.Stats(ctx); return "ok" })
			}()
		}
		waitFirst := rng.Intn(3) == 0
		if waitFirst {
			id := newID()
			ctx := w.opCtx(id/100, false)
			go func() {
				w.call(id, id/100, "wait", "", "")
				w.guarded(id, func() string { w.b.Wait(ctx); return "ok" })
			}()
		}
		// one run in three is shut down abruptly, under load: the subscribers stop receiving and the broker is
		// stopped while the publishers are still at it (workers are then in the middle of their sends); only the
		// post-shutdown observation is made
		abrupt := rng.Intn(3) == 0
		if abrupt {
			yield(rng, 40)
			w.mu.Lock()
			subs := []*subscriber{}
			for _, s := range w.subs {
				subs = append(subs, s)
			}
			w.mu.Unlock()
			for _, s := range subs {
				w.readOff(s)
			}
		}
		// wait for the drivers - or for a fixed point in which some of them are blocked for good (a stalled
		// broker must show up as an observation, not hang the recorder)
		drivers := make(chan struct{})
		go func() { sw.Wait(); close(drivers) }()
		settled := false
	waiting:
		for tries := 0; tries < 60 && !abrupt; tries++ {
			select {
			case <-drivers:
				settled = true
				break waiting
			case <-time.After(time.Duration(1+tries) * time.Millisecond): // pacing only, never a verdict
				if _, err := rt.QuiesceBudget(40); err == nil {
					settled = true
					break waiting
				}
			}
		}
		if !settled && !abrupt {
			// drivers blocked and the broker busy for ever (e.g. idle workers of a Deque back-end signalling each
			// other): no observation is possible - this run is dropped, it is never a verdict
			w.teardown()
			rt.Emit(map[string]any{"dropped": "drivers neither finished nor quiescent"})
			continue
		}
		// live fixed point.  Two or more idle workers on one Deque condition variable keep signalling each other
		// (DESIGN 3.3: never quiescent, not a listed property, and a snapshot of spinning goroutines is costly):
		// for those configurations only the post-shutdown observation is made.
		pingpong := (cfg.A == "deque" || cfg.A == "nbdeque" || cfg.A == "lifo") && cfg.W >= 2
		if !pingpong && !abrupt {
			if snap, err := rt.QuiesceBudget(600); err == nil {
				lib := w.libGoroutines(snap)
				w.rec.Log(rt.Event{"ev": "quiescent", "blocked": w.pending(), "depth": w.depth(), "live": len(lib), "where": where(lib)})
			}
		}
		// shutdown
		if rng.Intn(3) == 0 {
			w.rec.Log(rt.Event{"ev": "cancelparent"})
			w.parentCl()
		} else {
			id := newID()
			go func() {
				w.call(id, id/100, "stop", "", "")
				w.guarded(id, func() string { w.b.Stop(); return "ok" })
			}()
		}
		if !waitFirst {
			id := newID()
			ctx := w.opCtx(id/100, false)
			go func() {
				w.call(id, id/100, "wait", "", "")
				w.guarded(id, func() string { w.b.Wait(ctx); return "ok" })
			}()
		}
		// (bounded: a broker that cannot be stopped while Deque workers keep signalling each other never settles)
		ok := w.observeBudget(300)
		evs := w.rec.Events()
		w.teardown()
		if ok {
			rt.Emit(map[string]any{"hist": append(hist, evs...)})
		}
	}
}
