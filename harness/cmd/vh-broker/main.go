// vh-broker binds spec/broker to pubsub.Broker (properties C08, C09).
//
//	vh-broker replay   < schedules     execute quiescence-stepped driver schedules of BrokerStep on a real
//	                                   Broker; prints the recorded history (validated by BrokerTrace)
//	vh-broker record N SEED            random concurrent drivers; prints call/ret/recv histories
//
// The harness never judges: it executes, observes (which calls returned, what every subscriber
// received and in which order, distributor length, census of library goroutines) and logs.
package main

import (
	"context"
	"encoding/json"
	"fmt"
	"os"
	"runtime"
	"sort"
	"strconv"
	"strings"
	"sync"
	"sync/atomic"
	"time"

	"github.com/tychoish/fun/pubsub"
	"verif/harness/rt"
)

// step is one record of the `hist` variable of BrokerStep.tla (all fields always present).
type step struct {
	Op  string `json:"op"`
	A   string `json:"a"`   // subscriber / publisher / back-end name
	N   int    `json:"n"`   // burst size / target step / distributor capacity
	W   int    `json:"w"`   // WorkerPoolSize
	Par bool   `json:"par"` // ParallelDispatch
	Buf int    `json:"buf"` // BufferSize
	H   bool   `json:"h"`   // constructor step: hold the dispatcher at the yield point before its cond.Wait
	// constructor step, added by the check driver: GOMAXPROCS for this schedule (0: leave as is)
	Procs int `json:"procs"`
}

type input struct {
	N   int    `json:"n"`
	Beh []step `json:"beh"`
}

const window = "pubsub.wait.before-cond-wait"

var gates atomic.Pointer[rt.Gates]

func main() {
	pubsub.VerifHook = func(p string) {
		if g := gates.Load(); g != nil {
			g.Arrive(p)
		}
	}
	if len(os.Args) < 2 {
		fmt.Fprintln(os.Stderr, "usage: vh-broker replay|record")
		os.Exit(2)
	}
	switch os.Args[1] {
	case "replay":
		rt.ReadLines(func(_ int, raw json.RawMessage) {
			var in input
			if err := json.Unmarshal(raw, &in); err != nil {
				panic(err)
			}
			rt.Emit(map[string]any{"begin": in.N})
			rt.Flush()
			t0 := time.Now()
			out := replay(in)
			out["us"] = time.Since(t0).Microseconds() // diagnostics only, never used for a verdict
			rt.Emit(out)
			rt.Flush()
		})
	case "record":
		n, _ := strconv.Atoi(os.Args[2])
		seed, _ := strconv.Atoi(os.Args[3])
		only := ""
		if len(os.Args) > 4 {
			only = os.Args[4]
		}
		record(n, int64(seed), only)
	}
	rt.Flush()
}

// ---------------------------------------------------------------- the world of one behaviour

type subscriber struct {
	name    string
	ch      chan string
	pause   chan struct{}
	stopped chan struct{}
	reading bool
}

type pubItem struct {
	ctx context.Context
	c   int // context id
	id  int
	msg string
}

type publisher struct {
	name string
	work chan pubItem
	next int
}

type world struct {
	cfg      step
	rec      *rt.Recorder
	root     context.Context // ancestor of every API-call context (torn down at the end)
	rootStop context.CancelFunc
	parent   context.Context // the context handed to the broker's constructor
	parentCl context.CancelFunc
	b        *pubsub.Broker[string]
	depth    func() int
	mu       sync.Mutex
	rmu      sync.Mutex // serialises readOn / readOff (the recorder calls them from several goroutines)
	subs     map[string]*subscriber
	pubs     map[string]*publisher
	cancels  map[int]context.CancelFunc
	base     map[int]bool
}

func newWorld(cfg step) (*world, error) {
	w := &world{cfg: cfg, rec: &rt.Recorder{}, subs: map[string]*subscriber{}, pubs: map[string]*publisher{},
		cancels: map[int]context.CancelFunc{}, base: map[int]bool{}}
	for _, g := range rt.FunGoroutines(rt.Snapshot()) {
		w.base[g.ID] = true
	}
	w.root, w.rootStop = context.WithCancel(context.Background())
	w.parent, w.parentCl = context.WithCancel(context.Background())
	opts := pubsub.BrokerOptions{BufferSize: cfg.Buf, ParallelDispatch: cfg.Par, WorkerPoolSize: cfg.W}
	switch cfg.A {
	case "chan":
		if cfg.N == 0 && cfg.W%2 == 1 {
			// the plain constructor (its channel is not reachable: rendezvous, length always 0)
			w.b = pubsub.NewBroker[string](w.parent, opts)
			w.depth = func() int { return 0 }
		} else {
			ch := make(chan string, cfg.N)
			w.b = pubsub.MakeDistributorBroker(w.parent, pubsub.DistributorChannel(ch), opts)
			w.depth = func() int { return len(ch) }
		}
	case "queue":
		var q *pubsub.Queue[string]
		if cfg.N == 0 {
			q = pubsub.NewUnlimitedQueue[string]()
		} else {
			var err error
			if q, err = pubsub.NewQueue[string](pubsub.QueueOptions{HardLimit: cfg.N, SoftQuota: cfg.N}); err != nil {
				return nil, err
			}
		}
		w.b = pubsub.NewQueueBroker(w.parent, q, opts)
		w.depth = q.Len
	case "deque", "nbdeque":
		var d *pubsub.Deque[string]
		if cfg.N == 0 {
			d = pubsub.NewUnlimitedDeque[string]()
		} else {
			var err error
			if d, err = pubsub.NewDeque[string](pubsub.DequeOptions{Capacity: cfg.N}); err != nil {
				return nil, err
			}
		}
		if cfg.A == "deque" {
			w.b = pubsub.NewDequeBroker(w.parent, d, opts)
		} else {
			w.b = pubsub.MakeDistributorBroker(w.parent, d.DistributorNonBlocking(), opts)
		}
		w.depth = d.Len
	case "lifo":
		w.b = pubsub.NewLIFOBroker[string](w.parent, opts, cfg.N)
		w.depth = func() int { return -1 } // the deque is private to the constructor
	default:
		return nil, fmt.Errorf("unknown back-end %q", cfg.A)
	}
	return w, nil
}

func (w *world) resetEvent() rt.Event {
	return rt.Event{"ev": "reset", "backend": w.cfg.A, "cap": w.cfg.N, "w": maxInt(1, w.cfg.W), "par": w.cfg.Par, "buf": maxInt(0, w.cfg.Buf)}
}

func maxInt(a, b int) int {
	if a > b {
		return a
	}
	return b
}

// opCtx derives the context of one API call (or of one publish burst); c is its name in the history.
func (w *world) opCtx(c int, cancelled bool) context.Context {
	ctx, cancel := context.WithCancel(w.root)
	w.mu.Lock()
	w.cancels[c] = cancel
	w.mu.Unlock()
	if cancelled {
		w.rec.Log(rt.Event{"ev": "cancel", "c": c})
		cancel()
	}
	return ctx
}

func (w *world) call(id, c int, op, s, m string) {
	p, i := splitMsg(m)
	w.rec.Log(rt.Event{"ev": "call", "id": id, "c": c, "op": op, "s": s, "m": m, "p": p, "i": i})
}

// splitMsg: "p1.2" is the 2nd message of publisher p1
func splitMsg(m string) (string, int) {
	k := strings.LastIndex(m, ".")
	if k < 0 {
		return "", 0
	}
	i, _ := strconv.Atoi(m[k+1:])
	return m[:k], i
}
func (w *world) ret(id int, res string) { w.rec.Log(rt.Event{"ev": "ret", "id": id, "res": res}) }

// guarded runs one API call; a panic inside the library is part of the history, not of the harness.
func (w *world) guarded(id int, fn func() string) {
	res := ""
	func() {
		defer func() {
			if p := recover(); p != nil {
				res = fmt.Sprintf("panic:%v", p)
			}
		}()
		res = fn()
	}()
	w.ret(id, res)
}

func (w *world) subscribe(id, c int, name string, ctx context.Context) {
	w.call(id, c, "sub", name, "")
	w.guarded(id, func() string {
		ch := w.b.Subscribe(ctx)
		if ch == nil {
			return "nil"
		}
		w.mu.Lock()
		w.subs[name] = &subscriber{name: name, ch: ch}
		w.mu.Unlock()
		return "ok"
	})
}

func (w *world) sub(name string) *subscriber {
	w.mu.Lock()
	defer w.mu.Unlock()
	return w.subs[name]
}

func (w *world) readOn(s *subscriber) {
	w.rmu.Lock()
	defer w.rmu.Unlock()
	if s.reading {
		return
	}
	s.reading, s.pause, s.stopped = true, make(chan struct{}), make(chan struct{})
	w.rec.Log(rt.Event{"ev": "readon", "s": s.name})
	go func(ch chan string, pause, stopped chan struct{}) {
		defer close(stopped)
		for {
			select {
			case v := <-ch:
				p, i := splitMsg(v)
				w.rec.Log(rt.Event{"ev": "recv", "s": s.name, "m": v, "p": p, "i": i})
			case <-pause:
				return
			}
		}
	}(s.ch, s.pause, s.stopped)
}

func (w *world) readOff(s *subscriber) {
	w.rmu.Lock()
	defer w.rmu.Unlock()
	if !s.reading {
		return
	}
	close(s.pause)
	<-s.stopped
	s.reading = false
	w.rec.Log(rt.Event{"ev": "readoff", "s": s.name})
}

// publisher p is one goroutine that publishes its messages one after the other (PublisherOrder's premise)
func (w *world) pub(name string) *publisher {
	if p, ok := w.pubs[name]; ok {
		return p
	}
	p := &publisher{name: name, work: make(chan pubItem, 1024)}
	w.pubs[name] = p
	go func() {
		for it := range p.work {
			w.call(it.id, it.c, "pub", "", it.msg)
			it := it
			w.guarded(it.id, func() string { w.b.Publish(it.ctx, it.msg); return "ok" })
		}
	}()
	return p
}

func (w *world) burst(name string, n, id0, c int, ctx context.Context) {
	p := w.pub(name)
	for j := 1; j <= n; j++ {
		p.next++
		p.work <- pubItem{ctx: ctx, c: c, id: id0 + j, msg: fmt.Sprintf("%s.%d", name, p.next)}
	}
}

func (w *world) pending() []int {
	pend := map[int]bool{}
	for _, e := range w.rec.Events() {
		switch e["ev"] {
		case "call":
			pend[e["id"].(int)] = true
		case "ret":
			delete(pend, e["id"].(int))
		}
	}
	ids := []int{}
	for k := range pend {
		ids = append(ids, k)
	}
	sort.Ints(ids)
	return ids
}

// libGoroutines: goroutines started by the library for this broker (event loop, dispatch workers, the
// map-range goroutine, parallel senders, helper goroutines of Queue/Deque waits) - not the harness's own
// goroutines that merely sit in an API call.
func (w *world) libGoroutines(snap []rt.G) []rt.G {
	var out []rt.G
	for _, g := range rt.FunGoroutines(snap, "main.", "verif/harness/rt.") {
		if !w.base[g.ID] {
			out = append(out, g)
		}
	}
	return out
}

func where(gs []rt.G) []string {
	out := []string{}
	for _, g := range gs {
		fr := "?"
		for _, f := range g.Frames() {
			if strings.Contains(f, "tychoish/fun") {
				fr = f[strings.LastIndex(f, "/")+1:]
				break
			}
		}
		out = append(out, fr+" ["+g.State+"]")
	}
	sort.Strings(out)
	return out
}

// observe logs a `quiescent` event; false when no fixed point was reached (inconclusive, never a verdict).
func (w *world) observe() bool { return w.observeBudget(4000) }

func (w *world) observeBudget(polls int) bool {
	snap, err := rt.QuiesceBudget(polls)
	if err != nil {
		return false
	}
	lib := w.libGoroutines(snap)
	w.rec.Log(rt.Event{"ev": "quiescent", "blocked": w.pending(), "depth": w.depth(), "live": len(lib), "where": where(lib)})
	return true
}

func (w *world) teardown() {
	w.parentCl()
	w.rootStop()
	w.mu.Lock()
	subs := []*subscriber{}
	for _, s := range w.subs {
		subs = append(subs, s)
	}
	w.mu.Unlock()
	for _, s := range subs {
		w.readOff(s)
	}
	for _, p := range w.pubs {
		close(p.work)
	}
	_, _ = rt.QuiesceBudget(200)
}

// ---------------------------------------------------------------- replay of a stepped schedule

func replay(in input) map[string]any {
	if len(in.Beh) == 0 || in.Beh[0].Op != "new" {
		return map[string]any{"n": in.N, "ok": true, "inconclusive": "schedule without a constructor step"}
	}
	if in.Beh[0].Procs > 0 {
		defer runtime.GOMAXPROCS(runtime.GOMAXPROCS(in.Beh[0].Procs))
	}
	g := rt.NewGates()
	gates.Store(g)
	held := in.Beh[0].H
	if held {
		g.Arm(window)
	}
	w, err := newWorld(in.Beh[0])
	if err != nil {
		g.Disarm(window)
		return map[string]any{"n": in.N, "ok": true, "inconclusive": "constructor rejected the options: " + err.Error()}
	}
	defer w.teardown()
	defer g.Disarm(window)
	hist := []rt.Event{w.resetEvent()}
	finish := func(extra map[string]any) map[string]any {
		out := map[string]any{"n": in.N, "ok": true, "hist": append(hist, w.rec.Events()...)}
		for k, v := range extra {
			out[k] = v
		}
		return out
	}
	if held {
		// the first dispatch worker is held between its emptiness check and cond.Wait (it holds the container's
		// mutex, so nothing that needs the container is observed until the next step has been made)
		if _, err := rt.Quiesce(); err != nil {
			return map[string]any{"n": in.N, "ok": true, "inconclusive": "no quiescence after construction"}
		}
		if g.Waiting(window) == 0 {
			held = false // this back-end does not park on a condition variable
			g.Disarm(window)
		}
		w.rec.Log(rt.Event{"ev": "skip", "op": "hold", "s": ""})
	}
	if !held && !w.observe() {
		return map[string]any{"n": in.N, "ok": true, "inconclusive": "no quiescence after construction"}
	}
	for k := 1; k < len(in.Beh); k++ {
		st := in.Beh[k]
		id := (k + 1) * 100 // the spec's Id: position in hist; publishes of a burst are id+1 ...
		c := k + 1
		switch st.Op {
		case "sub", "xsub":
			ctx := w.opCtx(c, st.Op == "xsub")
			name := st.A
			go w.subscribe(id, c, name, ctx)
		case "unsub", "xunsub":
			s := w.sub(st.A)
			if s == nil {
				w.rec.Log(rt.Event{"ev": "skip", "op": st.Op, "s": st.A})
				break
			}
			ctx := w.opCtx(c, st.Op == "xunsub")
			go func() {
				w.call(id, c, "unsub", s.name, "")
				w.guarded(id, func() string { w.b.Unsubscribe(ctx, s.ch); return "ok" })
			}()
		case "unsubnil", "unsubstray":
			// Unsubscribe of nil (what a failed Subscribe returns) / of a channel the broker never handed out
			var ch chan string
			if st.Op == "unsubstray" {
				ch = make(chan string)
			}
			ctx := w.opCtx(c, false)
			go func() {
				w.call(id, c, "unsub", "", "")
				w.guarded(id, func() string { w.b.Unsubscribe(ctx, ch); return "ok" })
			}()
		case "readon":
			if s := w.sub(st.A); s != nil {
				w.readOn(s)
			} else {
				w.rec.Log(rt.Event{"ev": "skip", "op": st.Op, "s": st.A})
			}
		case "readoff":
			if s := w.sub(st.A); s != nil {
				w.readOff(s)
			} else {
				w.rec.Log(rt.Event{"ev": "skip", "op": st.Op, "s": st.A})
			}
		case "pub", "xpub":
			ctx := w.opCtx(c, st.Op == "xpub")
			w.burst(st.A, st.N, id, c, ctx)
		case "stats", "xstats":
			ctx := w.opCtx(c, st.Op == "xstats")
			go func() {
				w.call(id, c, "stats", "", "")
				w.guarded(id, func() string { _ = w.b.Stats(ctx); return "ok" })
			}()
		case "wait":
			ctx := w.opCtx(c, false)
			go func() {
				w.call(id, c, "wait", "", "")
				w.guarded(id, func() string { w.b.Wait(ctx); return "ok" })
			}()
		case "stop":
			go func() {
				w.call(id, c, "stop", "", "")
				w.guarded(id, func() string { w.b.Stop(); return "ok" })
			}()
		case "cancelparent":
			w.rec.Log(rt.Event{"ev": "cancelparent"})
			w.parentCl()
		case "cancel":
			w.mu.Lock()
			cancel := w.cancels[st.N]
			w.mu.Unlock()
			if cancel == nil {
				w.rec.Log(rt.Event{"ev": "skip", "op": st.Op, "s": ""})
				break
			}
			w.rec.Log(rt.Event{"ev": "cancel", "c": st.N})
			cancel()
		default:
			panic("unknown op " + st.Op)
		}
		if held {
			// the step (Stop / parent cancel) ran while the dispatcher was held; let it run into its park now
			held = false
			if _, err := rt.Quiesce(); err != nil {
				return finish(map[string]any{"truncated": k, "why": "no quiescence inside the window"})
			}
			g.Disarm(window)
		}
		if !w.observe() {
			// e.g. two idle dispatch workers on one Deque condition variable signal each other for ever
			// (DESIGN 3.3): the history recorded so far is complete and is still validated
			return finish(map[string]any{"truncated": k, "why": "no quiescence after step " + strconv.Itoa(k)})
		}
	}
	return finish(nil)
}
