// vh-iter binds spec/iter/IterAlgebra.tla to the real iterator tool kit of tychoish/fun (property C02).
//
//	vh-iter replay < terms.ndjson
//
// Every input line carries a term (operator tree) and the outputs the functional specification accepts.
// The tree is built from the real constructors with the spec's vocabulary of user functions, drained in
// several ways (ReadOne, Slice, Next/Value, MarshalJSON, Count; Reduce for reduce roots) - a fresh tree per
// way - and compared element by element.  Building and draining run in their own goroutine (rt.Start); a
// drain that has not finished when the process is quiescent is reported as stuck, never waited for.
package main

import (
	"context"
	"encoding/json"
	"errors"
	"fmt"
	"io"
	"os"
	"runtime"
	"sort"
	"strings"
	"sync"

	"github.com/tychoish/fun"
	"github.com/tychoish/fun/dt"
	"github.com/tychoish/fun/itertool"
	"github.com/tychoish/fun/risky"
	"verif/harness/rt"
)

type term struct {
	Op    string  `json:"op"`
	Kids  []term  `json:"kids"`
	Data  []int   `json:"data"`
	Datas [][]int `json:"datas"`
	Fn    string  `json:"fn"`
	Fault string  `json:"fault"`
	K     int     `json:"k"`
	N     int     `json:"n"`
}

// alt is a known deviation (not a specification): the output it would produce and the concat operators
// that went on after a failed operand.
type alt struct {
	Seq  []int    `json:"seq"`
	Div  []string `json:"div"`
	Rerr bool     `json:"rerr"`
}

type obs struct {
	Term   term     `json:"term"`
	Kind   string   `json:"kind"`
	Accept [][]int  `json:"accept"`
	Rerr   []bool   `json:"rerr"`
	Alts   []alt    `json:"alts"`
	Err    string   `json:"err"`
	Modes  []string `json:"modes"` // optional: restrict the ways of draining (self-tests)
}

type input struct {
	N   int `json:"n"`
	Beh obs `json:"beh"`
}

// ------------------------------------------------------------------ vocabulary

func pred(fn string) func(int) bool {
	switch fn {
	case "ne0":
		return func(v int) bool { return v != 0 }
	case "ne1":
		return func(v int) bool { return v != 1 }
	case "lt2":
		return func(v int) bool { return v < 2 }
	}
	panic("unknown predicate " + fn)
}

func mapper(fn string) func(int) int {
	switch fn {
	case "inc":
		return func(v int) int { return v + 1 }
	case "dbl":
		return func(v int) int { return 2 * v }
	}
	panic("unknown mapper " + fn)
}

// env is one construction of a term: its context and the sentinel errors injected into it.
type env struct {
	ctx    context.Context
	cancel context.CancelFunc
	sent   map[string]error // path -> sentinel returned by the faulty user function at that node
	mu     sync.Mutex       // user functions run on library goroutines (Buffer, Chain, channel conversions)
	raised map[string]bool
}

func newEnv() *env {
	ctx, cancel := context.WithCancel(context.Background())
	return &env{ctx: ctx, cancel: cancel, sent: map[string]error{}, raised: map[string]bool{}}
}

// fault returns the error the user function at path returns for the i-th element it sees.
func (e *env) fault(path, kind string, k int) func(i int) error {
	var sentinel error
	if kind == "err" {
		// eager conversions (BufferedChannel, Channel) start draining while the rest of the tree is still
		// being built: the maps are shared with those goroutines
		sentinel = errors.New("E@" + path)
		e.mu.Lock()
		e.sent[path] = sentinel
		e.mu.Unlock()
	}
	return func(i int) error {
		if i != k {
			return nil
		}
		switch kind {
		case "err":
			e.mu.Lock()
			e.raised[path] = true
			e.mu.Unlock()
			return sentinel
		case "skip":
			return fun.ErrIteratorSkip
		case "eof":
			return io.EOF
		}
		return nil
	}
}

func depth(path string) int { return strings.Count(path, ".") }

func (e *env) build(t term, path string) *fun.Iterator[int] {
	kids := make([]*fun.Iterator[int], len(t.Kids))
	for i := range t.Kids {
		kids[i] = e.build(t.Kids[i], fmt.Sprintf("%s.%d", path, i+1))
	}
	data := append([]int{}, t.Data...)
	switch t.Op {
	case "slice":
		if depth(path)%2 == 0 {
			return fun.SliceIterator(data)
		}
		return dt.NewSlice(data).Iterator()
	case "variadic":
		return fun.VariadicIterator(data...)
	case "hang": // self-test only: a channel nobody writes to or closes
		return fun.ChannelIterator(make(chan int))
	case "chan":
		ch := make(chan int, len(data)+1)
		for _, v := range data {
			ch <- v
		}
		close(ch)
		if depth(path)%2 == 0 {
			return fun.ChannelIterator(ch)
		}
		return fun.Blocking(ch).Iterator()
	case "list":
		l := &dt.List[int]{}
		l.Append(data...)
		if depth(path)%2 == 0 {
			return l.Iterator()
		}
		return l.PopIterator()
	case "gen":
		f := e.fault(path, t.Fault, t.K)
		idx := 0
		return fun.Generator(func(context.Context) (int, error) {
			if idx >= len(data) {
				return 0, io.EOF
			}
			i := idx
			idx++
			if err := f(i); err != nil {
				return 0, err
			}
			return data[i], nil
		})
	case "mslices":
		return itertool.MergeSlices(t.Datas...)
	case "msi":
		return itertool.MergeSliceIterators(fun.SliceIterator(t.Datas))
	case "filter":
		return kids[0].Filter(pred(t.Fn))
	case "map", "convert":
		f := e.fault(path, t.Fault, t.K)
		m := mapper(t.Fn)
		cnt := 0
		tr := fun.Transform[int, int](func(_ context.Context, v int) (int, error) {
			i := cnt
			cnt++
			if err := f(i); err != nil {
				return 0, err
			}
			return m(v), nil
		})
		if t.Op == "map" {
			return kids[0].Transform(tr)
		}
		return fun.ConvertIterator(kids[0], tr)
	case "buffer":
		return kids[0].Buffer(t.N)
	case "split1":
		return kids[0].Split(1)[0]
	case "channel":
		return fun.ChannelIterator(kids[0].Channel(e.ctx))
	case "bufchannel":
		return fun.ChannelIterator(kids[0].BufferedChannel(e.ctx, t.N))
	case "uniq":
		return itertool.Uniq(kids[0])
	case "dropzero":
		return itertool.DropZeroValues(kids[0])
	case "indexed":
		return fun.ConvertIterator(itertool.Indexed(kids[0]),
			fun.Converter(func(p dt.Pair[int, int]) int { return 10*p.Key + p.Value }))
	case "listrt":
		if depth(path)%2 == 0 {
			l, err := dt.NewListFromIterator(e.ctx, kids[0])
			if err != nil {
				panic(fmt.Sprintf("NewListFromIterator: %v", err))
			}
			return l.Iterator()
		}
		return risky.List(kids[0]).Iterator()
	case "stackrt":
		s, err := dt.NewStackFromIterator(e.ctx, kids[0])
		if err != nil {
			panic(fmt.Sprintf("NewStackFromIterator: %v", err))
		}
		return s.Iterator()
	case "slicert":
		if depth(path)%2 == 0 {
			s, _ := kids[0].Slice(e.ctx)
			return fun.SliceIterator(s)
		}
		return dt.NewSlice(risky.Slice(kids[0])).Iterator()
	case "jsonrt":
		b, err := kids[0].MarshalJSON()
		if err != nil {
			panic(fmt.Sprintf("MarshalJSON: %v", err))
		}
		it := fun.SliceIterator([]int{})
		if err := it.UnmarshalJSON(b); err != nil {
			panic(fmt.Sprintf("UnmarshalJSON(%s): %v", b, err))
		}
		return it
	case "unjson":
		b, _ := json.Marshal(data)
		if depth(path)%2 == 1 {
			// JSON null decodes to the zero value of a fresh element, exactly like the literal 0: on every other
			// level the zeros of the array are written as null (an element decoded on top of its predecessor would
			// keep the predecessor's value)
			b = []byte(strings.ReplaceAll(strings.ReplaceAll(strings.ReplaceAll(string(b), "[0", "[null"), ",0", ",null"), "[null.", "[0."))
		}
		if err := kids[0].UnmarshalJSON(b); err != nil {
			panic(fmt.Sprintf("UnmarshalJSON(%s): %v", b, err))
		}
		return kids[0]
	case "join":
		return kids[0].Join(kids[1:]...)
	case "chain":
		return itertool.Chain(kids...)
	}
	panic("unknown op " + t.Op)
}

// ------------------------------------------------------------------ draining

const bound = 400 // no accepted output is longer than a few dozen elements

type outcome struct {
	seq      []int
	val      int   // reduce
	rerr     error // reduce
	after    int   // values obtained by ReadOne after ReadOne had returned an error
	closeErr error
	e        *env
}

func drain(t term, mode string) *outcome {
	e := newEnv()
	o := &outcome{e: e, seq: []int{}}
	if t.Op == "reduce" {
		kid := e.build(t.Kids[0], "r.1")
		f := e.fault("r", t.Fault, t.K)
		cnt := 0
		red := func(in, acc int) (int, error) {
			i := cnt
			cnt++
			if err := f(i); err != nil {
				return 0, err
			}
			return acc + in, nil
		}
		if mode == "reduce" {
			o.val, o.rerr = kid.Reduce(red)(e.ctx)
		} else {
			o.val, o.rerr = itertool.Reduce(e.ctx, kid, red, 0)
		}
		o.closeErr = kid.Close()
		return o
	}
	it := e.build(t, "r")
	switch mode {
	case "readone":
		for len(o.seq) < bound {
			v, err := it.ReadOne(e.ctx)
			if err != nil {
				break
			}
			o.seq = append(o.seq, v)
		}
		for i := 0; i < 3; i++ {
			if _, err := it.ReadOne(e.ctx); err == nil {
				o.after++
			}
		}
		if it.Next(e.ctx) {
			o.after++
		}
		o.closeErr = it.Close()
	case "slice":
		var err error
		o.seq, err = it.Slice(e.ctx)
		o.closeErr = err
	case "next":
		for len(o.seq) < bound && it.Next(e.ctx) {
			o.seq = append(o.seq, it.Value())
		}
		o.closeErr = it.Close()
	case "json":
		b, err := it.MarshalJSON()
		if err != nil {
			panic(fmt.Sprintf("MarshalJSON: %v", err))
		}
		if err := json.Unmarshal(b, &o.seq); err != nil {
			panic(fmt.Sprintf("MarshalJSON produced %q: %v", b, err))
		}
		o.closeErr = it.Close()
	case "count":
		n := it.Count(e.ctx)
		o.val = n
		o.closeErr = it.Close()
	}
	return o
}

func eq(a, b []int) bool {
	if len(a) != len(b) {
		return false
	}
	for i := range a {
		if a[i] != b[i] {
			return false
		}
	}
	return true
}

func accepted(acc [][]int, got []int) bool {
	for _, a := range acc {
		if eq(a, got) {
			return true
		}
	}
	return false
}

// worst names a combination of deviating concat operators by its least excusable member, so that the
// set of keys is small and stable: a failure that was visible at the operand before one that was hidden
// behind a channel / eager conversion, Join before Chain before UnmarshalJSON.
func worst(div []string) string {
	for _, k := range []string{"join", "chain", "unjson", "unjson~closehook", "join~hidden", "chain~hidden", "unjson~hidden"} {
		for _, d := range div {
			if d == k {
				return k
			}
		}
	}
	return strings.Join(div, "+")
}

// excuse ranks a set of deviating operators by its least excusable member (position of worst(div) in the list above).
func excuse(div []string) int {
	w := worst(div)
	for i, k := range []string{"join", "chain", "unjson", "unjson~closehook", "join~hidden", "chain~hidden", "unjson~hidden"} {
		if k == w {
			return i
		}
	}
	return -1
}

func replayTerm(in input) map[string]any {
	o := in.Beh
	fail0 := func(key, what string) map[string]any {
		return map[string]any{"n": in.N, "ok": false, "key": key, "what": what}
	}
	modes := []string{"readone", "slice", "next", "json", "count"}
	if o.Kind == "reduce" {
		modes = []string{"reduce", "itreduce"}
	}
	if len(o.Modes) > 0 {
		modes = o.Modes
	}
	unreported := 0
	var roSeq []int     // what ReadOne delivered
	var roErrs []string // paths of the injected sentinels reported by Close() after draining with ReadOne
	fail := func(key, what string) map[string]any {
		m := fail0(key, what)
		if roSeq != nil {
			m["seq"], m["cerr"] = roSeq, roErrs
		}
		return m
	}
	for _, mode := range modes {
		mode := mode
		op := rt.Start(0, func() any { return drain(o.Term, mode) })
		for i := 0; i < 300 && !op.Done(); i++ {
			runtime.Gosched()
		}
		if !op.Done() {
			if _, err := rt.Quiesce(); err != nil {
				return map[string]any{"n": in.N, "ok": true, "inconclusive": "no quiescence while draining (" + mode + ")"}
			}
			if !op.Done() {
				return fail("iter/"+mode+"/stuck", "building/draining the iterator had not finished when the process was quiescent")
			}
		}
		if op.Pan != nil {
			return fail("iter/"+mode+"/panic", fmt.Sprintf("panic: %v", op.Pan))
		}
		r := op.Res.(*outcome)
		r.e.cancel()
		got := r.seq
		if mode == "readone" {
			roSeq, roErrs = append([]int{}, r.seq...), []string{}
			for p, s := range r.e.sent {
				if errors.Is(r.closeErr, s) {
					roErrs = append(roErrs, p)
				}
			}
			sort.Strings(roErrs)
		}
		if o.Kind == "reduce" || mode == "count" {
			got = []int{r.val}
		}
		acc := o.Accept
		if mode == "count" {
			acc = nil
			for _, a := range o.Accept {
				acc = append(acc, []int{len(a)})
			}
		}
		if !accepted(acc, got) {
			// which deviation explains the output?  Several may (a nested visible failure that was ALSO passed, or only a
			// hidden one that was passed, can produce the same sequence): take the most excusable explanation - an
			// output that the recorded design limits (failures hidden behind channels / close hooks) explain on their
			// own is not evidence of anything else - and among equally excusable ones the one with the fewest
			// concat operators going on after a failure.
			var best *alt
			for _, a := range o.Alts {
				a := a
				aseq := a.Seq
				if mode == "count" {
					aseq = []int{len(a.Seq)}
				}
				if eq(aseq, got) && len(a.Div) > 0 && (best == nil || excuse(a.Div) > excuse(best.Div) ||
					(excuse(a.Div) == excuse(best.Div) && len(a.Div) < len(best.Div))) {
					best = &a
				}
			}
			if best != nil {
				sort.Strings(best.Div)
				return fail("iter/"+worst(best.Div)+"/continues-after-operand-error",
					fmt.Sprintf("%s: got %v; the sequence truncated at the first user error is %v - %v went on with the next operand after an operand had failed", mode, got, o.Accept, best.Div))
			}
			return fail("iter/"+mode+"/sequence-mismatch", fmt.Sprintf("%s: got %v, functional specification %v", mode, got, o.Accept))
		}
		if r.after > 0 {
			return fail("iter/terminal/yields-after-error", fmt.Sprintf("%s: %d further values after ReadOne had returned an error", mode, r.after))
		}
		if o.Kind == "reduce" {
			okErr := false
			for _, b := range o.Rerr {
				okErr = okErr || b == (r.rerr != nil)
			}
			if !okErr {
				return fail("iter/reduce/error", fmt.Sprintf("%s: returned error %v, spec: reducer fails = %v", mode, r.rerr, o.Rerr))
			}
			if r.rerr != nil && !errors.Is(r.rerr, r.e.sent["r"]) {
				return fail("iter/reduce/error", fmt.Sprintf("%s: returned error %v is not the reducer's error", mode, r.rerr))
			}
		}
		// Close() must not report a user error that no user function can have returned
		for p, s := range r.e.sent {
			r.e.mu.Lock()
			raised := r.e.raised[p]
			r.e.mu.Unlock()
			if errors.Is(r.closeErr, s) && !raised {
				return fail("iter/close/invented-error", fmt.Sprintf("%s: Close() reports %v, which was never returned by a user function", mode, s))
			}
		}
		if mode == "readone" && o.Err != "" && !errors.Is(r.closeErr, r.e.sent[o.Err]) {
			unreported++
		}
	}
	return map[string]any{"n": in.N, "ok": true, "unreported": unreported, "seq": roSeq, "cerr": roErrs}
}

func main() {
	if len(os.Args) < 2 || os.Args[1] != "replay" {
		fmt.Fprintln(os.Stderr, "usage: vh-iter replay")
		os.Exit(2)
	}
	rt.ReadLines(func(_ int, raw json.RawMessage) {
		var in input
		if err := json.Unmarshal(raw, &in); err != nil {
			panic(err)
		}
		rt.Emit(map[string]any{"begin": in.N})
		rt.Flush()
		rt.Emit(replayTerm(in))
		rt.Flush()
	})
	rt.Flush()
}
