// vh-set binds spec/set to dt.Set (property C18).
//
//	vh-set replay   < behaviours.ndjson   replay SetSpec behaviours, full-state comparison after every call
//	vh-set record N SEED                  concurrent call/return histories of a synchronized set for SetLinTrace
//
// replay is a supervisor: the behaviours are executed by a child process (vh-set worker) so that a call
// that never returns (detected by a resource criterion, never by wall-clock time: one call on a set of at
// most a handful of elements allocated more than divergeBytes) can be reported and the process replaced.
package main

import (
	"bufio"
	"context"
	"encoding/json"
	"fmt"
	"io"
	"math/rand"
	"os"
	"os/exec"
	"runtime"
	"runtime/metrics"
	"sort"
	"strconv"
	"sync"
	"sync/atomic"
	"time"

	"github.com/tychoish/fun"
	"github.com/tychoish/fun/dt"
	"verif/harness/rt"
)

const divergeBytes = 64 << 20

type proj struct {
	O    int    `json:"o"`
	Y    int    `json:"y"`
	N    int    `json:"n"`
	M    []int  `json:"m"`
	Q    []int  `json:"q"`
	Self string `json:"self"`
}

type step struct {
	Op   string          `json:"op"`
	S    string          `json:"s"`
	T    string          `json:"t"`
	V    int             `json:"v"`
	Arg  []int           `json:"arg"`
	Dir  string          `json:"dir"`
	Free int             `json:"free"`
	Ret  string          `json:"ret"`
	Dom  []int           `json:"dom"`
	St   map[string]proj `json:"st"`
	Ab   string          `json:"ab"`
	Ba   string          `json:"ba"`
}

type input struct {
	N   int    `json:"n"`
	Beh []step `json:"beh"`
}

func main() {
	if len(os.Args) < 2 {
		fmt.Fprintln(os.Stderr, "usage: vh-set replay|worker|record")
		os.Exit(2)
	}
	switch os.Args[1] {
	case "replay":
		supervise()
	case "worker":
		worker()
	case "record":
		n, _ := strconv.Atoi(os.Args[2])
		seed, _ := strconv.Atoi(os.Args[3])
		record(n, int64(seed))
	}
	rt.Flush()
}

// ------------------------------------------------------------------ supervisor

type child struct {
	cmd *exec.Cmd
	in  io.WriteCloser
	out *bufio.Scanner
}

func startChild() *child {
	cmd := exec.Command(os.Args[0], "worker")
	cmd.Stderr = os.Stderr
	in, _ := cmd.StdinPipe()
	out, _ := cmd.StdoutPipe()
	if err := cmd.Start(); err != nil {
		panic(err)
	}
	sc := bufio.NewScanner(out)
	sc.Buffer(make([]byte, 1<<20), 1<<28)
	return &child{cmd: cmd, in: in, out: sc}
}

func (c *child) stop() { c.in.Close(); _ = c.cmd.Wait() }

func supervise() {
	var c *child
	w := bufio.NewWriter(os.Stdout)
	defer w.Flush()
	rt.ReadLines(func(_ int, raw json.RawMessage) {
		if c == nil {
			c = startChild()
		}
		if _, err := c.in.Write(append(raw, '\n')); err != nil {
			c.stop()
			c = startChild()
			if _, err := c.in.Write(append(raw, '\n')); err != nil {
				return
			}
		}
		for {
			if !c.out.Scan() {
				// the worker died without a result: the line stays "begun, no result" and
				// run/vlib/replay.py re-runs that behaviour alone
				c.stop()
				c = nil
				w.Flush()
				return
			}
			line := c.out.Bytes()
			w.Write(line)
			w.WriteByte('\n')
			var r struct {
				Begin *int `json:"begin"`
				Exit  bool `json:"exit"`
			}
			_ = json.Unmarshal(line, &r)
			if r.Begin != nil {
				continue
			}
			w.Flush()
			if r.Exit {
				c.stop()
				c = nil
			}
			return
		}
	})
	if c != nil {
		c.stop()
	}
}

// ------------------------------------------------------------------ worker

// progress of the replay, read by the divergence watchdog
var (
	tick   atomic.Int64 // incremented before every library call
	curN   atomic.Int64
	curK   atomic.Int64
	curOp  atomic.Value // string
	curWhy atomic.Value
)

func allocated() uint64 {
	s := []metrics.Sample{{Name: "/gc/heap/allocs:bytes"}}
	metrics.Read(s)
	return s[0].Value.Uint64()
}

// watchdog: if one library call (one tick) has allocated more than divergeBytes it is declared
// divergent: the result is emitted and the process exits (the goroutine cannot be stopped).
func watchdog() {
	var seen int64 = -1
	var base uint64
	for {
		time.Sleep(3 * time.Millisecond) // polling interval only; the criterion is bytes allocated
		t := tick.Load()
		if t != seen {
			seen, base = t, allocated()
			continue
		}
		if t == 0 {
			continue
		}
		if a := allocated(); a-base > divergeBytes {
			op, _ := curOp.Load().(string)
			rt.Emit(map[string]any{"n": curN.Load(), "ok": false, "step": curK.Load(), "exit": true,
				"key":  "set/" + family(op) + "/diverges",
				"what": fmt.Sprintf("%s at step %d did not return: the call allocated more than %d MiB on a set of at most a few elements (non-termination)", op, curK.Load(), divergeBytes>>20)})
			rt.Flush()
			os.Exit(3)
		}
	}
}

func worker() {
	go watchdog()
	rt.ReadLines(func(_ int, raw json.RawMessage) {
		var in input
		if err := json.Unmarshal(raw, &in); err != nil {
			panic(err)
		}
		rt.Emit(map[string]any{"begin": in.N})
		rt.Flush()
		rt.Emit(replay(in))
		rt.Flush()
	})
}

func family(op string) string {
	switch op {
	case "add", "addcheck":
		return "add"
	case "delete", "deletecheck":
		return "delete"
	case "sortquick", "sortmerge":
		return "sort"
	}
	return op
}

func fail(in input, k int, key, what string) map[string]any {
	return map[string]any{"n": in.N, "ok": false, "step": k, "key": key, "what": what}
}

func lt(dir string) func(a, b int) bool {
	if dir == "desc" {
		return func(a, b int) bool { return a > b }
	}
	return func(a, b int) bool { return a < b }
}

func items(s *dt.Set[int]) []int {
	out := []int{}
	it := s.Iterator()
	ctx := context.Background()
	for it.Next(ctx) {
		out = append(out, it.Value())
	}
	_ = it.Close()
	return out
}

func sorted(in []int) []int { out := append([]int{}, in...); sort.Ints(out); return out }
func same(a, b []int) bool  { return fmt.Sprint(a) == fmt.Sprint(b) }
func bstr(b bool) string {
	if b {
		return "true"
	}
	return "false"
}

// call runs one library call, converting a panic into a description
func call(op string, fn func()) (pan string) {
	tick.Add(1)
	curOp.Store(op)
	defer func() {
		if r := recover(); r != nil {
			pan = fmt.Sprint(r)
		}
	}()
	fn()
	return ""
}

func replay(in input) map[string]any {
	sets := map[string]*dt.Set[int]{}
	var dom []int
	curN.Store(int64(in.N))
	ordered := map[string]bool{}
	for k, st := range in.Beh {
		curK.Store(int64(k))
		fam := family(st.Op)
		ret := "-"
		var pan string
		s, t := sets[st.S], sets[st.T]
		switch st.Op {
		case "new":
			dom = st.Dom
			for name, p := range st.St {
				x := &dt.Set[int]{}
				if p.O == 1 {
					x.Order()
				}
				if p.Y == 1 {
					x.Synchronize()
				}
				sets[name] = x
			}
		case "add":
			pan = call(st.Op, func() { s.Add(st.V) })
		case "addcheck":
			pan = call(st.Op, func() { ret = bstr(s.AddCheck(st.V)) })
		case "delete":
			pan = call(st.Op, func() { s.Delete(st.V) })
		case "deletecheck":
			pan = call(st.Op, func() { ret = bstr(s.DeleteCheck(st.V)) })
		case "populate":
			pan = call(st.Op, func() { s.Populate(fun.SliceIterator(st.Arg)) })
		case "fromslice":
			pan = call(st.Op, func() { sets[st.S] = dt.NewSetFromSlice(st.Arg) })
		case "extend":
			pan = call(st.Op, func() { s.Extend(t) })
		case "json":
			var raw []byte
			var err error
			pan = call("marshaljson", func() { raw, err = json.Marshal(t) })
			if pan == "" {
				if err != nil {
					return fail(in, k, "set/json/marshal-error", err.Error())
				}
				var got []int
				if err := json.Unmarshal(raw, &got); err != nil {
					return fail(in, k, "set/json/not-an-array", fmt.Sprintf("MarshalJSON produced %q: %v", raw, err))
				}
				if got == nil {
					got = []int{}
				}
				if ordered[st.T] && !same(got, st.Arg) || !ordered[st.T] && !same(sorted(got), sorted(st.Arg)) {
					return fail(in, k, "set/json/marshal-members", fmt.Sprintf("MarshalJSON of %s produced %s, spec members %v (ordered=%v)", st.T, raw, st.Arg, ordered[st.T]))
				}
				pan = call("unmarshaljson", func() { err = json.Unmarshal(raw, s) })
				if pan == "" && err != nil {
					return fail(in, k, "set/json/unmarshal-error", err.Error())
				}
			}
		case "order":
			pan = call(st.Op, func() { s.Order() })
		case "sync":
			pan = call(st.Op, func() { s.Synchronize() })
		case "sortquick":
			pan = call(st.Op, func() { s.SortQuick(lt(st.Dir)) })
		case "sortmerge":
			pan = call(st.Op, func() { s.SortMerge(lt(st.Dir)) })
		default:
			panic("unknown op " + st.Op)
		}
		if pan != "" {
			return fail(in, k, "set/"+fam+"/panic", fmt.Sprintf("%s panicked: %s", st.Op, pan))
		}
		if ret != st.Ret {
			return fail(in, k, "set/"+fam+"/return-value", fmt.Sprintf("%s(%d) returned %s, spec %s", st.Op, st.V, ret, st.Ret))
		}
		// ---- full projected state
		truncated := false
		for _, name := range []string{"A", "B"} {
			x, p := sets[name], st.St[name]
			ordered[name] = p.O == 1
			free := 0
			if name == st.S {
				free = st.Free
			}
			key, what, trunc := observe(name, x, p, dom, free, st.Op)
			if key != "" {
				return fail(in, k, "set/"+fam+"/"+key, fmt.Sprintf("after %s on %s: %s", st.Op, st.S, what))
			}
			truncated = truncated || trunc
		}
		var ab, ba bool
		if pan = call("equal", func() { ab = sets["A"].Equal(sets["B"]); ba = sets["B"].Equal(sets["A"]) }); pan != "" {
			return fail(in, k, "set/"+fam+"/equal-panic", pan)
		}
		if st.Ab != "any" && bstr(ab) != st.Ab || st.Ba != "any" && bstr(ba) != st.Ba {
			return fail(in, k, "set/"+fam+"/equal", fmt.Sprintf("after %s: A.Equal(B)=%v B.Equal(A)=%v, spec %s/%s (A=%v B=%v)",
				st.Op, ab, ba, st.Ab, st.Ba, items(sets["A"]), items(sets["B"])))
		}
		if truncated {
			// the order Go's map iteration produced is another permutation than this behaviour assumes
			return map[string]any{"n": in.N, "ok": true, "steps": k + 1, "truncated": true}
		}
	}
	return map[string]any{"n": in.N, "ok": true, "steps": len(in.Beh)}
}

// observe compares everything observable of one set with the spec's projection.
func observe(name string, x *dt.Set[int], p proj, dom []int, free int, op string) (key, what string, truncated bool) {
	var pan string
	var n int
	if pan = call("len", func() { n = x.Len() }); pan != "" {
		return "len-panic", pan, false
	}
	if n != p.N {
		return "len", fmt.Sprintf("%s.Len()=%d, spec %d", name, n, p.N), false
	}
	member := map[int]bool{}
	for _, v := range p.M {
		member[v] = true
	}
	for _, v := range dom {
		var c bool
		if pan = call("check", func() { c = x.Check(v) }); pan != "" {
			return "check-panic", pan, false
		}
		if c != member[v] {
			return "check", fmt.Sprintf("%s.Check(%d)=%v, spec %v", name, v, c, member[v]), false
		}
	}
	var got []int
	if pan = call("iterator", func() { got = items(x) }); pan != "" {
		return "iterator-panic", pan, false
	}
	if !same(sorted(got), sorted(p.M)) {
		return "iterator-bag", fmt.Sprintf("iterator of %s produced %v, spec members %v", name, got, sorted(p.M)), false
	}
	if p.O == 1 {
		fix := len(p.Q) - free
		if !same(got[:fix], p.Q[:fix]) {
			return "iterator-order", fmt.Sprintf("ordered set %s iterates %v, spec %v", name, got, p.Q), false
		}
		if !same(got, p.Q) {
			truncated = true
		}
	}
	// JSON: the array holds the members (in order when ordered); reading it into a fresh set gives an Equal set
	var raw []byte
	var err error
	if pan = call("marshaljson", func() { raw, err = x.MarshalJSON() }); pan != "" || err != nil {
		return "json-marshal", fmt.Sprint(pan, err), false
	}
	var arr []int
	if err = json.Unmarshal(raw, &arr); err != nil {
		return "json-marshal", fmt.Sprintf("%q: %v", raw, err), false
	}
	if arr == nil {
		arr = []int{}
	}
	if p.O == 1 && !same(arr, got) || !same(sorted(arr), sorted(p.M)) {
		return "json-members", fmt.Sprintf("MarshalJSON of %s = %s, spec members %v, iteration %v", name, raw, sorted(p.M), got), false
	}
	f := &dt.Set[int]{}
	if p.O == 1 {
		f.Order()
	}
	if pan = call("unmarshaljson", func() { err = f.UnmarshalJSON(raw) }); pan != "" || err != nil {
		return "json-unmarshal", fmt.Sprint(pan, err), false
	}
	back := items(f)
	if p.O == 1 && !same(back, got) || !same(sorted(back), sorted(p.M)) {
		return "json-roundtrip", fmt.Sprintf("UnmarshalJSON(MarshalJSON(%s)) holds %v, want %v", name, back, got), false
	}
	var e1, e2 bool
	if pan = call("equal", func() { e1 = f.Equal(x); e2 = x.Equal(f) }); pan != "" {
		return "equal-panic", pan, false
	}
	if !e1 || !e2 {
		return "json-roundtrip-equal", fmt.Sprintf("round-tripped copy of %s %v: copy.Equal(orig)=%v orig.Equal(copy)=%v", name, got, e1, e2), false
	}
	if p.Self == "true" {
		if pan = call("equal", func() { e1 = x.Equal(x) }); pan != "" {
			return "equal-panic", pan, false
		}
		if !e1 {
			return "equal-self", fmt.Sprintf("%s.Equal(%s) is false", name, name), false
		}
	}
	return "", "", truncated
}

// ------------------------------------------------------------------ record

// record runs n random concurrent scenarios on a synchronized set and prints one history per line:
// {"hist":[events...]}.  Events: config / call / ret / final.  The three callers proceed in rounds: each logs
// its call, then all meet at a spin barrier and issue their calls at the same moment (the call event only
// has to precede the call, so logging it before the barrier keeps the history sound and the calls tight).
func record(n int, seed int64) {
	rng := rand.New(rand.NewSource(seed))
	mixOps := []string{"add", "addcheck", "addcheck", "addcheck", "delete", "deletecheck", "deletecheck", "deletecheck", "check", "len"}
	duelOps := []string{"addcheck", "addcheck", "addcheck", "addcheck", "deletecheck", "deletecheck", "deletecheck", "deletecheck", "add", "delete"}
	for i := 0; i < n; i++ {
		// two kinds of scenario: "mix" (3 callers, all six operations, 1-3 values) and "duel" (3-5 callers
		// fighting over ONE value with AddCheck/DeleteCheck only, always through the barrier, one P per caller):
		// the latter is where a check-then-act that is not atomic shows as two callers both winning
		duel := rng.Intn(2) == 0
		callers, nvals, ops, barrier := 3, 1+rng.Intn(3), mixOps, rng.Intn(4) != 0
		runtime.GOMAXPROCS(1 + rng.Intn(6))
		if duel {
			callers, nvals, ops, barrier = 3+rng.Intn(3), 1, duelOps, true
			runtime.GOMAXPROCS(callers + 1)
		}
		rec := &rt.Recorder{}
		s := &dt.Set[int]{}
		ordered := rng.Intn(2)
		if ordered == 1 {
			s.Order()
		}
		if rng.Intn(2) == 0 {
			s.Synchronize()
		} else {
			s.WithLock(&sync.Mutex{})
		}
		rec.Log(rt.Event{"ev": "config", "ordered": ordered})
		var id atomic.Int64
		var arrived atomic.Int64
		var wg sync.WaitGroup
		rounds := 3 + rng.Intn(4)
		for t := 0; t < callers; t++ {
			r := rand.New(rand.NewSource(rng.Int63()))
			tn := fmt.Sprintf("t%d", t)
			wg.Add(1)
			go func() {
				defer wg.Done()
				for j := 0; j < rounds; j++ {
					k := id.Add(1)
					v := 1 + r.Intn(nvals)
					op := ops[r.Intn(len(ops))]
					if op == "len" {
						v = 0
					}
					rec.Log(rt.Event{"ev": "call", "t": tn, "id": k, "op": op, "arg": v})
					if barrier {
						arrived.Add(1)
						for spin := 0; arrived.Load() < int64(callers*(j+1)); spin++ {
							if spin > 200 {
								runtime.Gosched()
							}
						}
					} else if r.Intn(3) == 0 {
						runtime.Gosched()
					}
					res := "-"
					switch op {
					case "add":
						s.Add(v)
					case "addcheck":
						res = bstr(s.AddCheck(v))
					case "delete":
						s.Delete(v)
					case "deletecheck":
						res = bstr(s.DeleteCheck(v))
					case "check":
						res = bstr(s.Check(v))
					case "len":
						res = strconv.Itoa(s.Len())
					}
					rec.Log(rt.Event{"ev": "ret", "t": tn, "id": k, "res": res})
				}
			}()
		}
		wg.Wait()
		rec.Log(rt.Event{"ev": "final", "items": items(s), "n": s.Len()})
		rt.Emit(map[string]any{"hist": rec.Events()})
	}
}
