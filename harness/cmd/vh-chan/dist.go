package main

import (
	"context"
	"fmt"
	"math/rand"
	"runtime"
	"sort"
	"strconv"
	"strings"
	"sync"

	"github.com/tychoish/fun"
	"github.com/tychoish/fun/pubsub"
	"verif/harness/rt"
)

// ------------------------------------------------------------------ Distributor: sequential replay (Distributor.tla)

type dseqStep struct {
	Op     string   `json:"op"`
	View   string   `json:"view"`
	Arg    string   `json:"arg"`
	Canc   bool     `json:"canc"`
	Res    string   `json:"res"`
	Len    int      `json:"len"`
	Items  []string `json:"items"`
	Cap    int      `json:"cap"`
	Hard   int      `json:"hard"`
	Closed bool     `json:"closed"`
}

type dseqInput struct {
	N   int        `json:"n"`
	Beh []dseqStep `json:"beh"`
}

// distWorld is one backend with the views of Distributor.tla derived from its distributor.
type distWorld struct {
	kind    string
	ch      chan string
	q       *pubsub.Queue[string]
	dq      *pubsub.Deque[string]
	views   map[string]pubsub.Distributor[string]
	variant int
}

func rejects(set string) func(string) bool {
	return func(v string) bool { return !strings.Contains(set, v) }
}

func newDistWorld(kind, trk string, cap, hard, variant int) (*distWorld, error) {
	w := &distWorld{kind: kind, variant: variant}
	var raw pubsub.Distributor[string]
	var err error
	switch kind {
	case "chan-b":
		w.ch = make(chan string, cap)
		if variant%2 == 0 {
			raw = pubsub.DistributorChannel(w.ch)
		} else {
			raw = pubsub.DistributorChanOp(fun.Blocking(w.ch))
		}
	case "chan-nb":
		w.ch = make(chan string, cap)
		raw = pubsub.DistributorChanOp(fun.NonBlocking(w.ch))
	case "queue":
		if trk == "nolimit" {
			w.q = pubsub.NewUnlimitedQueue[string]()
		} else {
			w.q, err = pubsub.NewQueue[string](pubsub.QueueOptions{HardLimit: hard})
		}
		if err != nil {
			return nil, err
		}
		raw = w.q.Distributor()
	case "deque", "deque-nb":
		opts := pubsub.DequeOptions{Capacity: hard}
		if trk == "nolimit" {
			opts = pubsub.DequeOptions{Unlimited: true}
		}
		w.dq, err = pubsub.NewDeque[string](opts)
		if err != nil {
			return nil, err
		}
		if kind == "deque" {
			raw = w.dq.Distributor()
		} else {
			raw = w.dq.DistributorNonBlocking()
		}
	default:
		return nil, fmt.Errorf("unknown backend %q", kind)
	}
	if variant%3 == 2 {
		// the same distributor rebuilt from its parts
		raw = pubsub.MakeDistributor(raw.Processor(), raw.Producer(), raw.Len)
	}
	in := raw.WithInputFilter(rejects("x"))
	out := raw.WithOutputFilter(rejects("y"))
	w.views = map[string]pubsub.Distributor[string]{
		"raw": raw, "in": in, "out": out,
		"both": in.WithOutputFilter(rejects("y")),
		"in2":  in.WithInputFilter(rejects("y")),
		"out2": out.WithOutputFilter(rejects("x")),
	}
	return w, nil
}

func (w *distWorld) close() {
	switch {
	case w.ch != nil:
		fun.Blocking(w.ch).Close()
	case w.q != nil:
		_ = w.q.Close()
	default:
		_ = w.dq.Close()
	}
}

// drain empties the backend directly (not through the distributor), front first.
func (w *distWorld) drain(max int) []string {
	var rest []string
	for i := 0; i < max; i++ {
		var v string
		var ok bool
		switch {
		case w.ch != nil:
			select {
			case v, ok = <-w.ch:
			default:
			}
		case w.q != nil:
			v, ok = w.q.Remove()
		default:
			v, ok = w.dq.PopFront()
		}
		if !ok {
			break
		}
		rest = append(rest, v)
	}
	return rest
}

// do performs one Distributor operation and reports it in the vocabulary of DistCore.
func (w *distWorld) do(ctx context.Context, op, view, arg string) string {
	d := w.views[view]
	switch op {
	case "send":
		if w.variant%2 == 0 {
			return errName(d.Send(ctx, arg))
		}
		return errName(d.Processor()(ctx, arg))
	case "recv":
		var v string
		var err error
		if w.variant%2 == 0 {
			v, err = d.Receive(ctx)
		} else {
			v, err = d.Producer()(ctx)
		}
		if err != nil {
			if v != "" {
				return errName(err) + "!nonzero:" + v
			}
			return errName(err)
		}
		return "v:" + v
	case "next":
		it := d.Iterator()
		if it.Next(ctx) {
			return "v:" + it.Value()
		}
		return "false"
	case "len":
		return strconv.Itoa(d.Len())
	case "close":
		w.close()
		return "done"
	}
	panic("unknown distributor op " + op)
}

func replayDist(in dseqInput) map[string]any {
	c0 := in.Beh[0]
	kind := c0.View
	w, err := newDistWorld(kind, c0.Arg, c0.Cap, c0.Hard, in.N)
	if err != nil {
		return map[string]any{"n": in.N, "ok": false, "step": 0, "key": "dist/" + kind + "/new-rejected", "what": err.Error()}
	}
	fail := func(k int, key, what string) map[string]any {
		return map[string]any{"n": in.N, "ok": false, "step": k, "key": key, "what": what}
	}
	live := context.Background()
	dead, cancel := context.WithCancel(live)
	cancel()
	defer w.close()
	for k := 1; k < len(in.Beh); k++ {
		st := in.Beh[k]
		ctx := live
		if st.Canc {
			ctx = dead
		}
		var got string
		if st.Op == "len" || st.Op == "close" {
			got = w.do(ctx, st.Op, st.View, st.Arg)
		} else {
			// may block if the code disagrees with the spec: judged at quiescence, never by time
			hold, release := context.WithCancel(ctx)
			o := rt.Start(k, func() any { return w.do(hold, st.Op, st.View, st.Arg) })
			if _, err := quiesce(); err != nil {
				release()
				return map[string]any{"n": in.N, "ok": true, "inconclusive": "no quiescence"}
			}
			if !o.Done() {
				release()
				return fail(k, "dist/"+kind+"/"+st.Op+"/blocked-when-enabled",
					fmt.Sprintf("%s(%s) through view %q did not return; the spec says %q (len %d)", st.Op, st.Arg, st.View, st.Res, st.Len))
			}
			release()
			got = fmt.Sprint(o.Res)
		}
		if got != st.Res {
			return fail(k, "dist/"+kind+"/"+st.Op+"/"+st.View+"/result",
				fmt.Sprintf("%s(%s) through view %q (cancelled=%v) = %q, spec %q", st.Op, st.Arg, st.View, st.Canc, got, st.Res))
		}
		for name, d := range w.views {
			if l := d.Len(); l != st.Len {
				return fail(k, "dist/"+kind+"/len", fmt.Sprintf("Len() of view %q = %d after %s, spec %d", name, l, st.Op, st.Len))
			}
		}
	}
	last := in.Beh[len(in.Beh)-1]
	if last.Closed && w.dq != nil {
		return map[string]any{"n": in.N, "ok": true} // a closed Deque refuses pops: contents no longer observable
	}
	rest := w.drain(len(last.Items) + 2)
	if fmt.Sprint(rest) != fmt.Sprint(last.Items) && !(len(rest) == 0 && len(last.Items) == 0) {
		return fail(len(in.Beh), "dist/"+kind+"/contents", fmt.Sprintf("draining the backend gives %v, spec %v", rest, last.Items))
	}
	return map[string]any{"n": in.N, "ok": true}
}

// ------------------------------------------------------------------ Distributor: concurrent histories (DistTrace.tla)

// recordDist runs n random free-running scenarios on the views of one Queue / Deque backed distributor.
func recordDist(n int, seed int64) {
	rng := rand.New(rand.NewSource(seed))
	type setup struct {
		kind, trk string
		hard      int
	}
	setups := []setup{{"queue", "nolimit", 0}, {"queue", "quota", 2}, {"queue", "quota", 1}, {"deque", "hard", 2}, {"deque", "nolimit", 0},
		{"deque-nb", "hard", 2}, {"deque-nb", "hard", 1}}
	viewNames := []string{"raw", "in", "out", "both", "in2", "out2"}
	vals := []string{"a", "a", "x", "y"}
	for i := 0; i < n; i++ {
		if inconclusiveSeen >= maxInconclusive/2 {
			rt.Emit(map[string]any{"inconclusive": "skipped: too many runs without a quiescent point"})
			continue
		}
		runtime.GOMAXPROCS(1 + rng.Intn(8))
		su := setups[rng.Intn(len(setups))]
		w, err := newDistWorld(su.kind, su.trk, 0, su.hard, rng.Intn(12))
		if err != nil {
			panic(err)
		}
		rec := &rt.Recorder{}
		hist := []rt.Event{{"ev": "reset", "kind": su.kind, "trk": su.trk, "hard": su.hard}}
		var mu sync.Mutex
		nextID := 0
		newID := func() int { mu.Lock(); defer mu.Unlock(); nextID++; return nextID }
		cancels := map[int]context.CancelFunc{}
		var sw sync.WaitGroup
		start := make(chan struct{})
		nthreads := 2 + rng.Intn(3)
		for t := 0; t < nthreads; t++ {
			t := t
			r := rand.New(rand.NewSource(rng.Int63()))
			sw.Add(1)
			go func() {
				defer sw.Done()
				<-start
				for j, nops := 0, 2+r.Intn(5); j < nops; j++ {
					id := newID()
					op, arg := "", ""
					view := viewNames[r.Intn(len(viewNames))]
					switch c := r.Intn(20); {
					case c == 0:
						op, view = "close", "raw"
					case c < 3:
						op = "len"
					case c < 12:
						op, arg = "send", vals[r.Intn(len(vals))]
					default:
						op = "recv"
					}
					// two waiters on one Deque cond wake each other for ever (never quiescent, DESIGN 3.3): at most one
					// goroutine per waiter class - thread 0 receives, thread 1 is the only one whose Send may block
					if w.dq != nil && op == "recv" && t != 0 {
						op, arg = "send", vals[r.Intn(len(vals))]
					}
					if su.kind == "deque" && op == "send" && t != 1 {
						op, arg = "len", ""
					}
					ctx, cancel := context.WithCancel(context.Background())
					mu.Lock()
					cancels[id] = cancel
					mu.Unlock()
					rec.Log(rt.Event{"ev": "call", "id": id, "op": op, "view": view, "arg": arg})
					if (op == "recv" || op == "send") && r.Intn(3) == 0 {
						y := r.Intn(30)
						go func() {
							for ; y > 0; y-- {
								runtime.Gosched()
							}
							rec.Log(rt.Event{"ev": "cancel", "id": id})
							cancel()
						}()
					}
					var res string
					func() {
						defer func() {
							if p := recover(); p != nil {
								res = fmt.Sprintf("panic:%v", p)
							}
						}()
						res = w.do(ctx, op, view, arg)
					}()
					rec.Log(rt.Event{"ev": "ret", "id": id, "res": res})
				}
			}()
		}
		close(start)
		quiet := func() bool {
			if _, err := quiesce(); err != nil {
				return false
			}
			pend := map[int]bool{}
			for _, e := range rec.Events() {
				switch e["ev"] {
				case "call":
					pend[e["id"].(int)] = true
				case "ret":
					delete(pend, e["id"].(int))
				}
			}
			ids := []int{}
			for k := range pend {
				ids = append(ids, k)
			}
			sort.Ints(ids)
			rec.Log(rt.Event{"ev": "quiescent", "blocked": ids, "len": w.views["raw"].Len()})
			return true
		}
		ok := quiet()
		id := newID()
		rec.Log(rt.Event{"ev": "call", "id": id, "op": "close", "view": "raw", "arg": ""})
		w.close()
		rec.Log(rt.Event{"ev": "ret", "id": id, "res": "done"})
		ok = ok && quiet()
		// nothing blocks on a closed Queue / Deque; should a call hang all the same it is released by its context
		// (it was reported as blocked at the quiescent point above)
		done := make(chan struct{})
		go func() { sw.Wait(); close(done) }()
		for finished := false; !finished; {
			select {
			case <-done:
				finished = true
			default:
				mu.Lock()
				for k, c := range cancels {
					rec.Log(rt.Event{"ev": "cancel", "id": k})
					c()
					delete(cancels, k)
				}
				mu.Unlock()
				runtime.Gosched()
			}
		}
		if ok {
			rt.Emit(map[string]any{"hist": append(hist, rec.Events()...)})
		} else {
			inconclusiveSeen++
			rt.Emit(map[string]any{"inconclusive": "no quiescence"})
		}
	}
}
