// vh-chan binds spec/chan to fun.ChanOp / ChanSend / ChanReceive (/repo/chan.go) and
// pubsub.Distributor (/repo/pubsub/buffer.go) - extra check X01.
//
//	vh-chan sched   < behaviours    quiescence-stepped replay of ChanStep behaviours (allowed-set comparison)
//	vh-chan record N SEED           free-running concurrent channel histories for ChanTrace
//	vh-chan dseq    < behaviours    sequential replay of Distributor behaviours (exact comparison)
//	vh-chan drecord N SEED          free-running concurrent Distributor histories for DistTrace
package main

import (
	"context"
	"encoding/json"
	"errors"
	"fmt"
	"io"
	"os"
	"strconv"
	"strings"
	"sync"

	"github.com/tychoish/fun"
	"github.com/tychoish/fun/pubsub"
	"verif/harness/rt"
)

// VH_CHAN_CTOR=defaultchan: build blocking-mode ChanOps with fun.DefaultChan(ch) alone (probe, never a registered run)
var ctorDefaultChan = os.Getenv("VH_CHAN_CTOR") == "defaultchan"

// A code under test that spins (never quiescent) cannot be judged: such behaviours are inconclusive.  After
// maxInconclusive of them this process stops executing (the rest is reported inconclusive at once), so that the
// check ends with its verdicts from the other behaviours instead of burning its budget.
const maxInconclusive = 8

var inconclusiveSeen int

func tooManyInconclusive(n int) map[string]any {
	return map[string]any{"n": n, "ok": true, "inconclusive": "skipped: too many inconclusive behaviours in this process"}
}

func noteInconclusive(res map[string]any) map[string]any {
	if res != nil && res["inconclusive"] != nil {
		inconclusiveSeen++
	}
	return res
}

// quiesce is rt.Quiesce with a smaller budget (a failure costs seconds; the drivers use no timers)
func quiesce() ([]rt.G, error) { return rt.QuiesceBudget(1500) }

func main() {
	if len(os.Args) < 2 {
		fmt.Fprintln(os.Stderr, "usage: vh-chan sched|record|dseq|drecord")
		os.Exit(2)
	}
	switch os.Args[1] {
	case "sched":
		rt.ReadLines(func(_ int, raw json.RawMessage) {
			var in schedInput
			if err := json.Unmarshal(raw, &in); err != nil {
				panic(err)
			}
			rt.Emit(map[string]any{"begin": in.N})
			rt.Flush()
			if inconclusiveSeen >= maxInconclusive {
				rt.Emit(tooManyInconclusive(in.N))
			} else {
				rt.Emit(noteInconclusive(runSched(in)))
			}
			rt.Flush()
		})
	case "record":
		n, _ := strconv.Atoi(os.Args[2])
		seed, _ := strconv.Atoi(os.Args[3])
		record(n, int64(seed))
	case "dseq":
		rt.ReadLines(func(_ int, raw json.RawMessage) {
			var in dseqInput
			if err := json.Unmarshal(raw, &in); err != nil {
				panic(err)
			}
			rt.Emit(map[string]any{"begin": in.N})
			rt.Flush()
			if inconclusiveSeen >= maxInconclusive {
				rt.Emit(tooManyInconclusive(in.N))
			} else {
				rt.Emit(noteInconclusive(replayDist(in)))
			}
			rt.Flush()
		})
	case "drecord":
		n, _ := strconv.Atoi(os.Args[2])
		seed, _ := strconv.Atoi(os.Args[3])
		recordDist(n, int64(seed))
	default:
		fmt.Fprintln(os.Stderr, "unknown subcommand "+os.Args[1])
		os.Exit(2)
	}
	rt.Flush()
}

// ------------------------------------------------------------------ result vocabulary (ChanCore)

// errName maps an error of the ChanOp API to the base results of ChanCore.
func errName(err error) string {
	switch {
	case err == nil:
		return "ok"
	case errors.Is(err, pubsub.ErrQueueFull):
		return "full"
	case errors.Is(err, pubsub.ErrQueueNoCredit):
		return "nocredit"
	case errors.Is(err, pubsub.ErrQueueClosed): // wraps io.EOF: must be tested first
		return "closed"
	case errors.Is(err, io.EOF):
		return "eof"
	case errors.Is(err, fun.ErrNonBlockingChannelOperationSkipped):
		return "skip"
	case errors.Is(err, context.Canceled), errors.Is(err, context.DeadlineExceeded):
		return "ctx"
	}
	return "err:" + err.Error()
}

// workerName: result of a Worker (nil is "nil").
func workerName(err error) string {
	if err == nil {
		return "nil"
	}
	return errName(err)
}

func boolName(b bool) string {
	if b {
		return "true"
	}
	return "false"
}

// chanOf builds the ChanOp under test in one of the equivalent ways the API offers.
func chanOf(ch chan string, nb bool, variant int) fun.ChanOp[string] {
	if ctorDefaultChan && !nb && ch != nil {
		// documented-vs-actual probe: DefaultChan(ch) used as it is returned ("blocking by default")
		return fun.DefaultChan(ch)
	}
	switch variant % 3 {
	case 0:
		if nb {
			return fun.NonBlocking(ch)
		}
		return fun.Blocking(ch)
	case 1:
		if nb {
			return fun.Blocking(ch).NonBlocking()
		}
		return fun.NonBlocking(ch).Blocking()
	default:
		if ch == nil {
			if nb {
				return fun.NonBlocking(ch)
			}
			return fun.Blocking(ch)
		}
		if nb {
			return fun.DefaultChan(ch).NonBlocking()
		}
		return fun.DefaultChan(ch).Blocking()
	}
}

type accum struct {
	mu   sync.Mutex
	vals []string
}

func (a *accum) add(v string) { a.mu.Lock(); a.vals = append(a.vals, v); a.mu.Unlock() }
func (a *accum) join() string { a.mu.Lock(); defer a.mu.Unlock(); return strings.Join(a.vals, ",") }

// world is one channel with its iterator (built on first use, all Next calls share one context).
type world struct {
	ch      chan string
	variant int
	itOnce  sync.Once
	it      *fun.Iterator[string]
	itCtx   context.Context
	itStop  context.CancelFunc
}

func newWorld(cap int, isnil bool, variant int) *world {
	w := &world{variant: variant}
	if !isnil {
		w.ch = make(chan string, cap)
	}
	w.itCtx, w.itStop = context.WithCancel(context.Background())
	return w
}

func (w *world) iterator() *fun.Iterator[string] {
	w.itOnce.Do(func() {
		switch w.variant % 4 {
		case 0:
			w.it = fun.Blocking(w.ch).Iterator()
		case 1:
			w.it = fun.Blocking(w.ch).Receive().Iterator()
		case 2:
			w.it = fun.Blocking(w.ch).Producer().Iterator()
		default:
			w.it = fun.BlockingReceive[string](w.ch).Iterator()
		}
	})
	return w.it
}

// notBad is the filter of the filtered distributors: the specs name rejected items "!...".
func notBad(v string) bool { return !strings.HasPrefix(v, "!") }

// dist builds the distributor over the channel in one of the equivalent ways.
func (w *world) dist(op fun.ChanOp[string], nb bool) pubsub.Distributor[string] {
	switch {
	case !nb && w.variant%3 == 0:
		return pubsub.DistributorChannel(w.ch)
	case w.variant%3 == 1:
		return pubsub.MakeDistributor(op.Send().Processor(), op.Receive().Producer(), op.Len)
	}
	return pubsub.DistributorChanOp(op)
}

// do performs one method call and reports its result in the vocabulary of ChanCore.  acc collects what a
// Consume processor saw; items are what a ChanSend.Consume call pushes.
func (w *world) do(ctx context.Context, meth string, nb bool, val string, items []string, acc *accum) string {
	op := chanOf(w.ch, nb, w.variant)
	zeroed := func(v string, res string) string {
		if v != "" {
			return res + "!nonzero:" + v // "when Read() returns an error, the return value is the zero value"
		}
		return res
	}
	switch meth {
	case "write":
		return errName(op.Send().Write(ctx, val))
	case "sproc":
		if w.variant%2 == 0 {
			return errName(op.Send().Processor()(ctx, val))
		}
		return errName(op.Processor()(ctx, val))
	case "scheck":
		return boolName(op.Send().Check(ctx, val))
	case "signore":
		op.Send().Ignore(ctx, val)
		return "done"
	case "zero":
		return errName(op.Send().Zero(ctx))
	case "signal":
		op.Send().Signal(ctx)
		return "done"
	case "sconsume":
		return workerName(op.Send().Consume(fun.SliceIterator(items)).Run(ctx))
	case "read":
		v, err := op.Receive().Read(ctx)
		if err != nil {
			return zeroed(v, errName(err))
		}
		return "v:" + v
	case "rprod":
		var v string
		var err error
		if w.variant%2 == 0 {
			v, err = op.Receive().Producer()(ctx)
		} else {
			v, err = op.Producer()(ctx)
		}
		if err != nil {
			return zeroed(v, errName(err))
		}
		return "v:" + v
	case "rcheck":
		v, ok := op.Receive().Check(ctx)
		if !ok {
			return zeroed(v, "false")
		}
		return "v:" + v
	case "ok":
		return boolName(op.Receive().Ok())
	case "force":
		return "v:" + op.Receive().Force(ctx)
	case "drop":
		return boolName(op.Receive().Drop(ctx))
	case "rignore":
		op.Receive().Ignore(ctx)
		return "done"
	case "dsendf":
		d := w.dist(op, nb).WithInputFilter(notBad)
		if w.variant%2 == 0 {
			return errName(d.Send(ctx, val))
		}
		return errName(d.Processor()(ctx, val))
	case "drecvf":
		d := w.dist(op, nb).WithOutputFilter(notBad)
		var v string
		var err error
		if w.variant%2 == 0 {
			v, err = d.Receive(ctx)
		} else {
			v, err = d.Producer()(ctx)
		}
		if err != nil {
			return zeroed(v, errName(err))
		}
		return "v:" + v
	case "rconsume":
		err := op.Receive().Consume(func(_ context.Context, v string) error { acc.add(v); return nil }).Run(ctx)
		return workerName(err) + "|" + acc.join()
	case "next":
		it := w.iterator()
		if it.Next(ctx) {
			return "v:" + it.Value()
		}
		return "false"
	}
	panic("unknown method " + meth)
}
