package main

import (
	"context"
	"fmt"
	"math/rand"
	"runtime"
	"sort"
	"strings"
	"sync"

	"verif/harness/rt"
)

var sendMeths = []string{"write", "write", "sproc", "scheck", "signore", "zero", "signal", "dsendf", "dsendf"}
var recvMeths = []string{"read", "read", "rprod", "rcheck", "ok", "force", "drop", "rignore", "drecvf", "drecvf"}

// record runs n random free-running scenarios on one channel (no stepping: real overlap) and prints
// one history per line: {"hist":[events]} (events: ChanTrace.tla).
func record(n int, seed int64) {
	rng := rand.New(rand.NewSource(seed))
	for i := 0; i < n; i++ {
		if inconclusiveSeen >= maxInconclusive/2 {
			rt.Emit(map[string]any{"inconclusive": "skipped: too many runs without a quiescent point"})
			continue
		}
		runtime.GOMAXPROCS(1 + rng.Intn(8))
		cap := rng.Intn(4)
		isnil := rng.Intn(12) == 0
		w := newWorld(cap, isnil, rng.Intn(12))
		rec := &rt.Recorder{}
		hist := []rt.Event{{"ev": "reset", "cap": cap, "nil": isnil}}
		var mu sync.Mutex
		nextID := 0
		newID := func() string { mu.Lock(); defer mu.Unlock(); nextID++; return fmt.Sprintf("t%d", nextID) }
		type stopper struct {
			cancel context.CancelFunc
			target string
		}
		cancels := map[string]stopper{}
		var sw, side sync.WaitGroup
		start := make(chan struct{})
		nthreads := 2 + rng.Intn(3)
		consumers := 0
		logCall := func(id, op, k, meth string, nb bool, val string, pre bool, target string) {
			rec.Log(rt.Event{"ev": "call", "id": id, "op": op, "k": k, "meth": meth, "nb": nb, "val": val, "pre": pre, "target": target,
				"bad": strings.HasPrefix(val, "!")})
		}
		for t := 0; t < nthreads; t++ {
			t := t
			r := rand.New(rand.NewSource(rng.Int63()))
			mayConsume := consumers == 0 && rng.Intn(3) == 0
			if mayConsume {
				consumers++
			}
			sw.Add(1)
			go func() {
				defer sw.Done()
				<-start
				for j, nops := 0, 2+r.Intn(5); j < nops; j++ {
					id := newID()
					c := r.Intn(20)
					switch {
					case c == 0:
						logCall(id, "close", "", "", false, "", false, "")
						chanOf(w.ch, r.Intn(2) == 0, w.variant).Close()
						rec.Log(rt.Event{"ev": "ret", "id": id, "res": "done"})
						continue
					case c == 1:
						logCall(id, "len", "", "", false, "", false, "")
						l := chanOf(w.ch, false, w.variant).Len()
						rec.Log(rt.Event{"ev": "ret", "id": id, "res": fmt.Sprint(l)})
						continue
					case c == 2 && t == 0:
						logCall(id, "iclose", "", "", false, "", false, "")
						res := workerName(w.iterator().Close())
						rec.Log(rt.Event{"ev": "ret", "id": id, "res": res})
						continue
					}
					var k, meth string
					nb := r.Intn(2) == 0
					switch {
					case c < 10:
						k, meth = "send", sendMeths[r.Intn(len(sendMeths))]
						if r.Intn(8) == 0 {
							meth = "sconsume"
						}
					default:
						k, meth = "recv", recvMeths[r.Intn(len(recvMeths))]
						if meth == "ok" && isnil {
							nb = true // a blocking Ok() on a nil channel never returns
						}
						if t == 0 && r.Intn(4) == 0 {
							meth, nb = "next", false
						} else if mayConsume && r.Intn(4) == 0 {
							meth, nb = "rconsume", false // a NonBlocking Consume / Iterator spins on an empty channel
						}
					}
					val := ""
					if k == "send" {
						val = "a" + id
						if (meth == "write" || meth == "dsendf") && r.Intn(4) == 0 {
							val = "!" + val // an item the distributor filters reject
						}
					}
					ctx, cancel := context.WithCancel(context.Background())
					target := id
					if meth == "next" {
						ctx, cancel, target = w.itCtx, w.itStop, "it"
					}
					pre := meth != "next" && meth != "ok" && r.Intn(6) == 0
					if pre {
						cancel()
					}
					mu.Lock()
					cancels[id] = stopper{cancel, target}
					mu.Unlock()
					logCall(id, "start", k, meth, nb, val, pre, "")
					if !pre && meth != "ok" && r.Intn(3) == 0 {
						y := r.Intn(30)
						cid := newID()
						side.Add(1)
						go func() {
							defer side.Done()
							for ; y > 0; y-- {
								runtime.Gosched()
							}
							logCall(cid, "cancel", "", "", false, "", false, target)
							cancel()
							rec.Log(rt.Event{"ev": "ret", "id": cid, "res": "done"})
						}()
					}
					var res string
					func() {
						defer func() {
							if p := recover(); p != nil {
								res = fmt.Sprintf("panic:%v", p)
							}
						}()
						res = w.do(ctx, meth, nb, val, []string{val + "x", val + "y"}, &accum{})
					}()
					rec.Log(rt.Event{"ev": "ret", "id": id, "res": res})
				}
			}()
		}
		close(start)
		quiet := func() bool {
			if _, err := quiesce(); err != nil {
				return false
			}
			pend := map[string]bool{}
			for _, e := range rec.Events() {
				switch e["ev"] {
				case "call":
					pend[e["id"].(string)] = true
				case "ret":
					delete(pend, e["id"].(string))
				}
			}
			ids := []string{}
			for k := range pend {
				ids = append(ids, k)
			}
			sort.Strings(ids)
			rec.Log(rt.Event{"ev": "quiescent", "blocked": ids, "len": chanOf(w.ch, false, 0).Len()})
			return true
		}
		ok := quiet()
		// release everybody: close the channel, then cancel every context; the threads go on with their
		// remaining operations in between, so this is repeated until they are all done
		done := make(chan struct{})
		go func() { sw.Wait(); close(done) }()
		id := newID()
		logCall(id, "close", "", "", false, "", false, "")
		chanOf(w.ch, false, w.variant).Close()
		rec.Log(rt.Event{"ev": "ret", "id": id, "res": "done"})
		ok = ok && quiet()
		for finished := false; !finished; {
			select {
			case <-done:
				finished = true
				continue
			default:
			}
			mu.Lock()
			cs := cancels
			cancels = map[string]stopper{}
			mu.Unlock()
			cs["-"] = stopper{w.itStop, "it"}
			for _, c := range cs {
				cid := newID()
				logCall(cid, "cancel", "", "", false, "", false, c.target)
				c.cancel()
				rec.Log(rt.Event{"ev": "ret", "id": cid, "res": "done"})
			}
			if ok {
				ok = quiet()
			} else {
				// no quiescent point was reached (the history is dropped as inconclusive): just let everybody finish
				runtime.Gosched()
			}
		}
		<-done
		side.Wait()
		if ok {
			rt.Emit(map[string]any{"hist": append(hist, rec.Events()...)})
		} else {
			inconclusiveSeen++
			rt.Emit(map[string]any{"inconclusive": "no quiescence"})
		}
	}
}
