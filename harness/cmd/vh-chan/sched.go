package main

import (
	"context"
	"encoding/json"
	"fmt"
	"runtime"
	"sort"
	"strings"

	"verif/harness/rt"
)

// resMap decodes the `res` function of an observation; TLC prints the empty function as [].
type resMap map[string]string

func (m *resMap) UnmarshalJSON(b []byte) error {
	*m = resMap{}
	if len(b) > 0 && b[0] == '[' {
		return nil
	}
	mm := map[string]string{}
	if err := json.Unmarshal(b, &mm); err != nil {
		return err
	}
	*m = mm
	return nil
}

type obs struct {
	Res resMap `json:"res"`
	Len int    `json:"len"`
}

type act struct {
	Op     string `json:"op"`
	ID     string `json:"id"`
	K      string `json:"k"`
	Meth   string `json:"meth"`
	NB     bool   `json:"nb"`
	Val    string `json:"val"`
	Pre    bool   `json:"pre"`
	Target string `json:"target"`
	Bad    bool   `json:"bad"`
}

type schedStep struct {
	Acts    []act `json:"acts"`
	Allowed []obs `json:"allowed"`
	Br      obs   `json:"br"`
	Cap     int   `json:"cap"`
	Nil     bool  `json:"nil"`
}

type schedInput struct {
	N     int         `json:"n"`
	Beh   []schedStep `json:"beh"`
	Procs int         `json:"procs"`
}

type liveOp struct {
	op     *rt.Op
	cancel context.CancelFunc
	meth   string
	nb     bool
	acc    *accum

	panLogged bool
}

func sameObs(a, b obs) bool {
	if a.Len != b.Len || len(a.Res) != len(b.Res) {
		return false
	}
	for k, v := range a.Res {
		if b.Res[k] != v {
			return false
		}
	}
	return true
}

func modeName(nb bool) string {
	if nb {
		return "nb"
	}
	return "b"
}

// classify names the violated predicate for a stable key (component/operation/predicate).
func classify(got obs, allowed []obs, ops map[string]*liveOp) (string, string) {
	ids := make([]string, 0, len(got.Res))
	for id := range got.Res {
		ids = append(ids, id)
	}
	sort.Strings(ids)
	name := func(id string) string {
		if o, ok := ops[id]; ok {
			return o.meth + "/" + modeName(o.nb)
		}
		return "driver"
	}
	blocked := func(s string) bool { return strings.HasPrefix(s, "blocked") }
	for _, id := range ids {
		g := got.Res[id]
		vals := map[string]bool{}
		mayBlock, mayReturn := false, false
		for _, a := range allowed {
			vals[a.Res[id]] = true
			if blocked(a.Res[id]) {
				mayBlock = true
			} else {
				mayReturn = true
			}
		}
		if vals[g] {
			continue
		}
		all := []string{}
		for v := range vals {
			all = append(all, v)
		}
		sort.Strings(all)
		what := fmt.Sprintf("%s (%s) reports %q at quiescence; the spec allows %v", id, name(id), g, all)
		switch {
		case strings.HasPrefix(g, "panic:"):
			return "chan/" + name(id) + "/panic", what
		case blocked(g) && !mayBlock:
			return "chan/" + name(id) + "/blocked-when-enabled", what
		case !blocked(g) && !mayReturn:
			return "chan/" + name(id) + "/returned-when-it-must-block", what
		default:
			return "chan/" + name(id) + "/result", what
		}
	}
	lens := map[int]bool{}
	for _, a := range allowed {
		lens[a.Len] = true
	}
	if !lens[got.Len] {
		return "chan/len", fmt.Sprintf("Len()=%d at quiescence, the spec allows %v", got.Len, lens)
	}
	return "chan/combination", fmt.Sprintf("every single result is allowed but not together: %v len %d", got.Res, got.Len)
}

// runSched executes one ChanStep behaviour on a real channel.
func runSched(in schedInput) map[string]any {
	if in.Procs > 0 {
		defer runtime.GOMAXPROCS(runtime.GOMAXPROCS(in.Procs))
	}
	c0 := in.Beh[0]
	w := newWorld(c0.Cap, c0.Nil, in.N)
	ops := map[string]*liveOp{}
	driver := map[string]string{} // results of close / iclose of the current step
	rec := &rt.Recorder{}
	hist := []rt.Event{{"ev": "reset", "cap": c0.Cap, "nil": c0.Nil}}
	trace := []map[string]any{}
	bg := context.Background()
	defer func() {
		for _, o := range ops {
			o.cancel()
		}
		w.itStop()
		chanOf(w.ch, false, 0).Close()
	}()
	inconclusive := func(why string) map[string]any {
		return map[string]any{"n": in.N, "ok": true, "inconclusive": why}
	}
	for k := 1; k < len(in.Beh); k++ {
		st := in.Beh[k]
		for id := range driver {
			delete(driver, id)
		}
		for _, a := range st.Acts {
			a := a
			switch a.Op {
			case "start":
				ctx, cancel := context.WithCancel(bg)
				if a.Meth == "next" {
					ctx, cancel = w.itCtx, w.itStop
				}
				if a.Pre {
					cancel()
				}
				lo := &liveOp{cancel: cancel, meth: a.Meth, nb: a.NB, acc: &accum{}}
				items := []string{a.Val + "x", a.Val + "y"}
				rec.Log(rt.Event{"ev": "call", "id": a.ID, "op": "start", "k": a.K, "meth": a.Meth, "nb": a.NB, "val": a.Val, "pre": a.Pre, "target": "", "bad": a.Bad})
				lo.op = rt.Start(k, func() any {
					r := w.do(ctx, a.Meth, a.NB, a.Val, items, lo.acc)
					rec.Log(rt.Event{"ev": "ret", "id": a.ID, "res": r})
					return r
				})
				ops[a.ID] = lo
			case "cancel":
				rec.Log(rt.Event{"ev": "call", "id": a.ID, "op": "cancel", "k": "", "meth": "", "nb": false, "val": "", "pre": false, "target": a.Target, "bad": false})
				if a.Target == "it" {
					w.itStop()
				} else if o, ok := ops[a.Target]; ok {
					o.cancel()
				}
				rec.Log(rt.Event{"ev": "ret", "id": a.ID, "res": "done"})
			case "close", "iclose":
				rec.Log(rt.Event{"ev": "call", "id": a.ID, "op": a.Op, "k": "", "meth": "", "nb": false, "val": "", "pre": false, "target": "", "bad": false})
				r := func() (res string) {
					defer func() {
						if p := recover(); p != nil {
							res = fmt.Sprintf("panic:%v", p)
						}
					}()
					if a.Op == "close" {
						chanOf(w.ch, k%2 == 0, w.variant).Close()
						return "done"
					}
					return workerName(w.iterator().Close())
				}()
				rec.Log(rt.Event{"ev": "ret", "id": a.ID, "res": r})
				driver[a.ID] = r
			default:
				panic("unknown action " + a.Op)
			}
		}
		if _, err := quiesce(); err != nil {
			return inconclusive(fmt.Sprintf("no quiescence after step %d", k))
		}
		// observe: every operation in the scope of this step (the keys of the spec's observation)
		got := obs{Res: resMap{}, Len: chanOf(w.ch, false, w.variant).Len()}
		blockedIDs := []string{}
		for id := range st.Br.Res {
			if r, ok := driver[id]; ok {
				got.Res[id] = r
				continue
			}
			o, ok := ops[id]
			if !ok {
				return map[string]any{"n": in.N, "ok": false, "step": k, "key": "chan/harness/unknown-id", "what": "behaviour names unknown operation " + id}
			}
			switch {
			case !o.op.Done():
				blockedIDs = append(blockedIDs, id)
				if o.meth == "rconsume" {
					got.Res[id] = "blocked|" + o.acc.join()
				} else {
					got.Res[id] = "blocked"
				}
			case o.op.Pan != nil:
				got.Res[id] = fmt.Sprintf("panic:%v", o.op.Pan)
			default:
				got.Res[id] = fmt.Sprint(o.op.Res)
			}
		}
		for id, o := range ops {
			if o.op.Done() && o.op.Pan != nil && !o.panLogged {
				o.panLogged = true
				rec.Log(rt.Event{"ev": "ret", "id": id, "res": fmt.Sprintf("panic:%v", o.op.Pan)})
			}
		}
		sort.Strings(blockedIDs)
		rec.Log(rt.Event{"ev": "quiescent", "blocked": blockedIDs, "len": got.Len})
		trace = append(trace, map[string]any{"step": k, "got": got})
		okHere := false
		for _, a := range st.Allowed {
			if sameObs(got, a) {
				okHere = true
				break
			}
		}
		if !okHere {
			key, what := classify(got, st.Allowed, ops)
			return map[string]any{"n": in.N, "ok": false, "step": k, "key": key, "what": what, "got": got, "trace": trace}
		}
		for id, o := range ops {
			if o.op.Done() {
				delete(ops, id)
			}
		}
		if !sameObs(got, st.Br) {
			// allowed, but not the branch this behaviour continues with: the rest does not apply
			return map[string]any{"n": in.N, "ok": true, "truncated": k, "steps": k, "hist": append(hist, rec.Events()...)}
		}
	}
	// tear down: every context is cancelled and the channel closed - every call must return
	// (the recorded history ends here: the tear-down is not part of it)
	full := append(hist, rec.Events()...)
	for _, o := range ops {
		o.cancel()
	}
	w.itStop()
	chanOf(w.ch, false, 0).Close()
	if _, err := quiesce(); err != nil {
		return inconclusive("no quiescence at tear-down")
	}
	for id, o := range ops {
		if !o.op.Done() && !(c0.Nil && o.meth == "ok") {
			return map[string]any{"n": in.N, "ok": false, "step": len(in.Beh), "key": "chan/" + o.meth + "/" + modeName(o.nb) + "/stuck-after-cancel-and-close",
				"what": fmt.Sprintf("%s (%s) has not returned although its context was cancelled and the channel closed", id, o.meth)}
		}
	}
	return map[string]any{"n": in.N, "ok": true, "steps": len(in.Beh) - 1, "hist": full}
}
