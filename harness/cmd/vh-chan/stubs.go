package main

type dseqInput struct {
	N int `json:"n"`
}

func replayDist(in dseqInput) map[string]any { return nil }
func recordDist(n int, seed int64)           {}
