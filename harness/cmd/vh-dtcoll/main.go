// vh-dtcoll binds spec/dtcoll (extra check X04) to the sequential collection types of package dt:
//
//	vh-dtcoll replay pairs  < behaviours.ndjson    PairsStep behaviours on *dt.Pairs[string,int]
//	vh-dtcoll replay map    < behaviours.ndjson    MapStep   behaviours on dt.Map[string,int]
//	vh-dtcoll replay slice  < behaviours.ndjson    SliceStep behaviours on dt.Slice[int]
//	vh-dtcoll replay optional < behaviours.ndjson  OptionalStep behaviours on dt.Optional[int]
//
// Every line {"n":i,"beh":[step...]} is executed call by call on real objects; after every call the return
// value, a panic (recovered) and the projected abstract state are compared with what TLC printed.  The harness
// holds no expectation of its own.  Model key i is the Go key "k<i>".  Keys of mismatches:
// dtcoll/<type>/<op>/<aspect>, aspect in return-value, state, partner-state, document, unexpected-panic,
// missing-panic.
package main

import (
	"bytes"
	"context"
	"encoding/json"
	"fmt"
	"os"
	"sort"
	"strconv"

	"github.com/tychoish/fun"
	"github.com/tychoish/fun/dt"
	"verif/harness/rt"
)

type step struct {
	Op      string          `json:"op"`
	S       string          `json:"s"`
	T       string          `json:"t"`
	K       int             `json:"k"`
	V       int             `json:"v"`
	I       int             `json:"i"`
	J       int             `json:"j"`
	C       int             `json:"c"`
	Dir     string          `json:"dir"`
	Arg     json.RawMessage `json:"arg"`
	Vals    []int           `json:"vals"`
	Map     [][2]int        `json:"map"`
	Free    int             `json:"free"`
	Inorder int             `json:"inorder"`
	Doc     [][2]int        `json:"doc"`
	Ret     json.RawMessage `json:"ret"`
	Pan     int             `json:"pan"`
	St      json.RawMessage `json:"st"`
}

type input struct {
	N   int    `json:"n"`
	Beh []step `json:"beh"`
}

type result = map[string]any

var ctx = context.Background()

func main() {
	if len(os.Args) < 3 || os.Args[1] != "replay" {
		fmt.Fprintln(os.Stderr, "usage: vh-dtcoll replay pairs|map|slice|optional")
		os.Exit(2)
	}
	var fn func(input) result
	switch os.Args[2] {
	case "pairs":
		fn = replayPairs
	case "map":
		fn = replayMap
	case "slice":
		fn = replaySlice
	case "optional":
		fn = replayOptional
	default:
		fmt.Fprintln(os.Stderr, "unknown type", os.Args[2])
		os.Exit(2)
	}
	rt.ReadLines(func(_ int, raw json.RawMessage) {
		var in input
		if err := json.Unmarshal(raw, &in); err != nil {
			panic(err)
		}
		rt.Emit(map[string]any{"begin": in.N})
		rt.Flush()
		rt.Emit(fn(in))
		rt.Flush()
	})
	rt.Flush()
}

// ------------------------------------------------------------------ helpers

func fail(in input, k int, typ, op, aspect, what string) result {
	return result{"n": in.N, "ok": false, "step": k, "key": "dtcoll/" + typ + "/" + op + "/" + aspect,
		"what": fmt.Sprintf("step %d %s: %s", k, op, what)}
}

// call runs one library call, converting a panic into a description
func call(fn func()) (pan string) {
	defer func() {
		if r := recover(); r != nil {
			pan = fmt.Sprint(r)
			if pan == "" {
				pan = "panic"
			}
		}
	}()
	fn()
	return ""
}

func key(i int) string { return "k" + strconv.Itoa(i) }
func unkey(s string) int {
	i, err := strconv.Atoi(s[1:])
	if err != nil {
		return -1
	}
	return i
}

type pp = dt.Pair[string, int]

func toPairs(q [][2]int) []pp {
	out := make([]pp, 0, len(q))
	for _, x := range q {
		out = append(out, dt.MakePair(key(x[0]), x[1]))
	}
	return out
}
func fromPairs(q []pp) [][2]int {
	out := make([][2]int, 0, len(q))
	for _, x := range q {
		out = append(out, [2]int{unkey(x.Key), x.Value})
	}
	return out
}
func fromGoMap(m map[string]int) [][2]int {
	out := make([][2]int, 0, len(m))
	for k, v := range m {
		out = append(out, [2]int{unkey(k), v})
	}
	return out
}
func toGoMap(q [][2]int) map[string]int {
	out := map[string]int{}
	for _, x := range q {
		out[key(x[0])] = x[1]
	}
	return out
}
func sortedPairs(q [][2]int) [][2]int {
	out := append([][2]int{}, q...)
	sort.Slice(out, func(i, j int) bool {
		if out[i][0] != out[j][0] {
			return out[i][0] < out[j][0]
		}
		return out[i][1] < out[j][1]
	})
	return out
}
func sortedInts(q []int) []int { out := append([]int{}, q...); sort.Ints(out); return out }
func str(v any) string         { return fmt.Sprint(v) }

func decPairs(raw json.RawMessage) ([][2]int, bool) {
	var q [][2]int
	if err := json.Unmarshal(raw, &q); err != nil {
		return nil, false
	}
	return q, true
}
func decInts(raw json.RawMessage) ([]int, bool) {
	var q []int
	if err := json.Unmarshal(raw, &q); err != nil {
		return nil, false
	}
	return q, true
}

// expectation decoders: a malformed expectation is a harness/spec problem, never the library's
func mustPairs(raw json.RawMessage) [][2]int {
	q, ok := decPairs(raw)
	if !ok {
		panic("vh-dtcoll: expectation is not a sequence of pairs: " + string(raw))
	}
	return q
}
func mustInts(raw json.RawMessage) []int {
	q, ok := decInts(raw)
	if !ok {
		panic("vh-dtcoll: expectation is not a sequence of ints: " + string(raw))
	}
	return q
}
func mustInt(raw json.RawMessage) int {
	var i int
	if err := json.Unmarshal(raw, &i); err != nil {
		panic("vh-dtcoll: expectation is not an int: " + string(raw))
	}
	return i
}
func mustStr(raw json.RawMessage) string {
	var s string
	if err := json.Unmarshal(raw, &s); err != nil {
		panic("vh-dtcoll: expectation is not a string: " + string(raw))
	}
	return s
}
func bstr(b bool) string {
	if b {
		return "true"
	}
	return "false"
}
func errstr(err error) string {
	if err == nil {
		return "nil"
	}
	return "error: " + err.Error()
}

func drain[T any](it *fun.Iterator[T]) []T {
	out := []T{}
	for it.Next(ctx) {
		out = append(out, it.Value())
	}
	_ = it.Close()
	return out
}

// ------------------------------------------------------------------ Pairs

type pairsProj struct {
	Fr int      `json:"fr"`
	Q  [][2]int `json:"q"`
}

func lessPair(dir string) func(a, b pp) bool {
	lt := func(a, b pp) bool {
		if a.Key != b.Key {
			return a.Key < b.Key
		}
		return a.Value < b.Value
	}
	if dir == "desc" {
		return func(a, b pp) bool { return lt(b, a) }
	}
	return lt
}

// jsonDoc lists the members of a JSON object in document order (duplicate keys are kept)
func jsonDoc(raw []byte) ([][2]int, error) {
	dec := json.NewDecoder(bytes.NewReader(raw))
	tok, err := dec.Token()
	if err != nil {
		return nil, err
	}
	if d, ok := tok.(json.Delim); !ok || d != '{' {
		return nil, fmt.Errorf("not an object")
	}
	out := [][2]int{}
	for dec.More() {
		kt, err := dec.Token()
		if err != nil {
			return nil, err
		}
		ks, ok := kt.(string)
		if !ok {
			return nil, fmt.Errorf("member name %v is not a string", kt)
		}
		var v int
		if err := dec.Decode(&v); err != nil {
			return nil, err
		}
		out = append(out, [2]int{unkey(ks), v})
	}
	if _, err := dec.Token(); err != nil {
		return nil, err
	}
	return out, nil
}

func replayPairs(in input) result {
	objs := map[string]*dt.Pairs[string, int]{}
	for k, st := range in.Beh {
		var proj map[string]pairsProj
		if err := json.Unmarshal(st.St, &proj); err != nil {
			panic("vh-dtcoll: bad pairs projection: " + string(st.St))
		}
		s, t := objs[st.S], objs[st.T]
		got := "" // canonical text of the real return value
		want := ""
		var pan string
		switch st.Op {
		case "new":
			for name, p := range proj {
				if p.Fr == 1 {
					objs[name] = &dt.Pairs[string, int]{}
				} else {
					objs[name] = dt.MakePairs(toPairs(p.Q)...)
				}
			}
		case "add":
			pan = call(func() {
				if r := s.Add(key(st.K), st.V); r == s {
					got = "self"
				} else {
					got = "another object"
				}
			})
			want = mustStr(st.Ret)
		case "push":
			pan = call(func() { s.Push(dt.MakePair(key(st.K), st.V)) })
		case "append":
			pan = call(func() { s.Append(toPairs(mustPairs(st.Arg))...) })
		case "consume":
			pan = call(func() { got = errstr(s.Consume(fun.SliceIterator(toPairs(mustPairs(st.Arg)))).Run(ctx)) })
			want = mustStr(st.Ret)
		case "consumevalues":
			pan = call(func() {
				got = errstr(s.ConsumeValues(fun.SliceIterator(st.Vals), func(v int) string { return key(v % 10) }).Run(ctx))
			})
			want = mustStr(st.Ret)
		case "consumeslice":
			pan = call(func() { s.ConsumeSlice(st.Vals, func(v int) string { return key(v % 10) }) })
		case "consumemap":
			pan = call(func() { s.ConsumeMap(toGoMap(st.Map)) })
		case "extend":
			pan = call(func() { s.Extend(t) })
		case "sortmerge":
			pan = call(func() { s.SortMerge(lessPair(st.Dir)) })
		case "sortquick":
			pan = call(func() { s.SortQuick(lessPair(st.Dir)) })
		case "copy":
			pan = call(func() { objs[st.T] = s.Copy() })
		case "json":
			var raw []byte
			var err error
			pan = call(func() { raw, err = json.Marshal(s) })
			if pan == "" {
				if err != nil {
					return fail(in, k, "pairs", "json", "marshal-error", err.Error())
				}
				doc, derr := jsonDoc(raw)
				if derr != nil {
					return fail(in, k, "pairs", "json", "document", fmt.Sprintf("MarshalJSON produced %s: %v", raw, derr))
				}
				okdoc := st.Inorder == 1 && str(doc) == str(st.Doc) || st.Inorder == 0 && str(sortedPairs(doc)) == str(sortedPairs(st.Doc))
				if !okdoc {
					return fail(in, k, "pairs", "json", "document", fmt.Sprintf("MarshalJSON produced %s, the spec expects the members %v (in order: %v)", raw, st.Doc, st.Inorder == 1))
				}
				pan = call(func() { err = json.Unmarshal(raw, t) })
				if pan == "" && err != nil {
					return fail(in, k, "pairs", "json", "unmarshal-error", err.Error())
				}
			}
		case "len":
			pan = call(func() { got = str(s.Len()) })
			want = str(mustInt(st.Ret))
		case "keys":
			pan = call(func() {
				ks := []int{}
				for _, x := range drain(s.Keys()) {
					ks = append(ks, unkey(x))
				}
				got = str(ks)
			})
			want = str(mustInts(st.Ret))
		case "values":
			pan = call(func() { got = str(drain(s.Values())) })
			want = str(mustInts(st.Ret))
		case "iterator":
			pan = call(func() { got = str(fromPairs(drain(s.Iterator()))) })
			want = str(mustPairs(st.Ret))
		case "list":
			pan = call(func() { got = str(fromPairs(drain(s.List().Iterator()))) })
			want = str(mustPairs(st.Ret))
		case "slice":
			pan = call(func() { got = str(fromPairs(s.Slice())) })
			want = str(mustPairs(st.Ret))
		case "observe":
			pan = call(func() {
				seen := []pp{}
				s.Observe(func(p pp) { seen = append(seen, p) })
				got = str(fromPairs(seen))
			})
			want = str(mustPairs(st.Ret))
		case "process":
			pan = call(func() {
				seen := []pp{}
				err := s.Process(fun.MakeProcessor(func(p pp) error { seen = append(seen, p); return nil })).Run(ctx)
				got = str(fromPairs(seen))
				if err != nil {
					got = errstr(err)
				}
			})
			want = str(mustPairs(st.Ret))
		case "map":
			pan = call(func() { got = str(sortedPairs(fromGoMap(s.Map()))) })
			want = str(sortedPairs(mustPairs(st.Ret)))
		default:
			panic("vh-dtcoll: unknown pairs op " + st.Op)
		}
		if pan != "" && st.Pan == 0 {
			return fail(in, k, "pairs", st.Op, "unexpected-panic", "the call panicked: "+pan)
		}
		if pan == "" && st.Pan == 1 {
			return fail(in, k, "pairs", st.Op, "missing-panic", "the spec expects a panic, the call returned "+got)
		}
		if pan == "" && got != want {
			return fail(in, k, "pairs", st.Op, "return-value", fmt.Sprintf("returned %s, spec %s", got, want))
		}
		// projected state of every object the spec allows to be observed (a fresh zero value is left untouched:
		// observing it would initialise it)
		names := []string{st.S, st.T}
		for name := range proj {
			if name != st.S && name != st.T {
				names = append(names, name)
			}
		}
		for _, name := range names {
			p, ok := proj[name]
			if !ok || p.Fr == 1 {
				continue
			}
			o := objs[name]
			aspect := "state"
			if name != st.S && st.Op != "new" {
				aspect = "partner-state"
			}
			var real [][2]int
			var n int
			if pan := call(func() { n = o.Len(); real = fromPairs(drain(o.Iterator())) }); pan != "" {
				return fail(in, k, "pairs", st.Op, aspect, "observing "+name+" panicked: "+pan)
			}
			exp := p.Q
			if n != len(exp) {
				return fail(in, k, "pairs", st.Op, aspect, fmt.Sprintf("%s.Len() = %d with contents %v, spec %v", name, n, real, exp))
			}
			free := 0
			if st.Free > 0 && (st.Op == "json" && name == st.T || st.Op != "json" && name == st.S) {
				free = st.Free
			}
			if len(real) != len(exp) || free > len(exp) {
				return fail(in, k, "pairs", st.Op, aspect, fmt.Sprintf("%s holds %v, spec %v", name, real, exp))
			}
			cut := len(exp) - free
			if str(real[:cut]) != str(exp[:cut]) || str(sortedPairs(real[cut:])) != str(sortedPairs(exp[cut:])) {
				return fail(in, k, "pairs", st.Op, aspect, fmt.Sprintf("%s holds %v, spec %v (last %d in any order)", name, real, exp, free))
			}
			if str(real[cut:]) != str(exp[cut:]) {
				// Go map order chose another permutation: a sibling behaviour continues with it
				return result{"n": in.N, "ok": true, "truncated": true, "steps": k + 1}
			}
		}
	}
	return result{"n": in.N, "ok": true, "steps": len(in.Beh)}
}

// ------------------------------------------------------------------ Map

func replayMap(in input) result {
	var m dt.Map[string, int]
	keyf := func(v int) string { return key(v % 10) }
	for k, st := range in.Beh {
		exp := mustPairs(st.St)
		got, want := "", ""
		var pan string
		switch st.Op {
		case "new":
			m = dt.NewMap(toGoMap(exp))
		case "check":
			pan = call(func() { got = bstr(m.Check(key(st.K))) })
			want = mustStr(st.Ret)
		case "get":
			pan = call(func() { got = str(m.Get(key(st.K))) })
			want = str(mustInt(st.Ret))
		case "load":
			pan = call(func() {
				v, ok := m.Load(key(st.K))
				b := 0
				if ok {
					b = 1
				}
				got = str([]int{v, b})
			})
			want = str(mustInts(st.Ret))
		case "len":
			pan = call(func() { got = str(m.Len()) })
			want = str(mustInt(st.Ret))
		case "keys":
			pan = call(func() {
				ks := []int{}
				for _, x := range drain(m.Keys()) {
					ks = append(ks, unkey(x))
				}
				got = str(sortedInts(ks))
			})
			want = str(sortedInts(mustInts(st.Ret)))
		case "values":
			pan = call(func() { got = str(sortedInts(drain(m.Values()))) })
			want = str(sortedInts(mustInts(st.Ret)))
		case "iterator":
			pan = call(func() { got = str(sortedPairs(fromPairs(drain(m.Iterator())))) })
			want = str(sortedPairs(mustPairs(st.Ret)))
		case "pairs":
			pan = call(func() { got = str(sortedPairs(fromPairs(drain(m.Pairs().Iterator())))) })
			want = str(sortedPairs(mustPairs(st.Ret)))
		case "tuples":
			pan = call(func() {
				q := [][2]int{}
				for _, tp := range drain(m.Tuples().Iterator()) {
					q = append(q, [2]int{unkey(tp.One), tp.Two})
				}
				got = str(sortedPairs(q))
			})
			want = str(sortedPairs(mustPairs(st.Ret)))
		case "setdefault":
			pan = call(func() { m.SetDefault(key(st.K)) })
		case "delete":
			pan = call(func() { m.Delete(key(st.K)) })
		case "add":
			pan = call(func() { m.Add(key(st.K), st.V) })
		case "addpair":
			pan = call(func() { m.AddPair(dt.MakePair(key(st.K), st.V)) })
		case "addtuple":
			pan = call(func() { m.AddTuple(dt.MakeTuple(key(st.K), st.V)) })
		case "append":
			pan = call(func() { m.Append(toPairs(mustPairs(st.Arg))...) })
		case "extend":
			pan = call(func() { m.Extend(dt.MakePairs(toPairs(mustPairs(st.Arg))...)) })
		case "consumepairs":
			pan = call(func() { m.ConsumePairs(dt.MakePairs(toPairs(mustPairs(st.Arg))...)) })
		case "consumetuples":
			pan = call(func() {
				tp := dt.MakeTuples[string, int]()
				for _, x := range mustPairs(st.Arg) {
					tp.Add(key(x[0]), x[1])
				}
				m.ConsumeTuples(tp)
			})
		case "consumeslice":
			pan = call(func() { m.ConsumeSlice(st.Vals, keyf) })
		case "consumevalues":
			pan = call(func() { got = errstr(m.ConsumeValues(fun.SliceIterator(st.Vals), keyf).Run(ctx)) })
			want = mustStr(st.Ret)
		case "consumemap":
			pan = call(func() { m.ConsumeMap(dt.NewMap(toGoMap(st.Map))) })
		default:
			panic("vh-dtcoll: unknown map op " + st.Op)
		}
		if pan != "" && st.Pan == 0 {
			return fail(in, k, "map", st.Op, "unexpected-panic", "the call panicked: "+pan)
		}
		if pan == "" && st.Pan == 1 {
			return fail(in, k, "map", st.Op, "missing-panic", "the spec expects a panic, the call returned "+got)
		}
		if pan == "" && got != want {
			return fail(in, k, "map", st.Op, "return-value", fmt.Sprintf("returned %s, spec %s", got, want))
		}
		// the projected state is read with the plain Go map operations (len, range)
		real := sortedPairs(fromGoMap(m))
		if len(m) != len(exp) || str(real) != str(sortedPairs(exp)) {
			return fail(in, k, "map", st.Op, "state", fmt.Sprintf("the map holds %v, spec %v", real, sortedPairs(exp)))
		}
	}
	return result{"n": in.N, "ok": true, "steps": len(in.Beh)}
}

// ------------------------------------------------------------------ Slice

func replaySlice(in input) result {
	var s dt.Slice[int]
	odd := func(v int) bool { return v%2 == 1 }
	for k, st := range in.Beh {
		exp := mustInts(st.St)
		got, want := "", ""
		var pan string
		seqRet := func(fn func() []int) {
			pan = call(func() { got = str(append([]int{}, fn()...)) })
			if st.Pan == 0 {
				want = str(mustInts(st.Ret))
			}
		}
		cond := st.C == 1
		switch st.Op {
		case "new":
			s = dt.NewSlice(append([]int{}, exp...))
		case "add":
			pan = call(func() { s.Add(st.V) })
		case "addwhen":
			pan = call(func() { s.AddWhen(cond, st.V) })
		case "append":
			pan = call(func() { s.Append(mustInts(st.Arg)...) })
		case "appendwhen":
			pan = call(func() { s.AppendWhen(cond, mustInts(st.Arg)...) })
		case "extend":
			pan = call(func() { s.Extend(mustInts(st.Arg)) })
		case "extendwhen":
			pan = call(func() { s.ExtendWhen(cond, mustInts(st.Arg)) })
		case "prepend":
			pan = call(func() { s.Prepend(mustInts(st.Arg)...) })
		case "populate":
			pan = call(func() { got = errstr(s.Populate(fun.SliceIterator(mustInts(st.Arg))).Run(ctx)) })
			want = mustStr(st.Ret)
		case "len":
			pan = call(func() { got = str(s.Len()) })
			want = str(mustInt(st.Ret))
		case "last":
			pan = call(func() { got = str(s.Last()) })
			want = str(mustInt(st.Ret))
		case "isempty":
			pan = call(func() { got = bstr(s.IsEmpty()) })
			want = mustStr(st.Ret)
		case "copy":
			seqRet(func() []int {
				c := s.Copy()
				out := append([]int{}, c...)
				for i := range c { // the copy must not share memory with the receiver
					c[i] = -7
				}
				return out
			})
		case "iterator":
			seqRet(func() []int { return drain(s.Iterator()) })
		case "observe":
			seqRet(func() []int { seen := []int{}; s.Observe(func(v int) { seen = append(seen, v) }); return seen })
		case "process":
			seqRet(func() []int {
				seen := []int{}
				if err := s.Process(fun.MakeProcessor(func(v int) error { seen = append(seen, v); return nil })).Run(ctx); err != nil {
					return []int{-1}
				}
				return seen
			})
		case "ptrs":
			seqRet(func() []int {
				out := []int{}
				for i, p := range s.Ptrs() {
					if p != &s[i] {
						return []int{-1}
					}
					out = append(out, *p)
				}
				return out
			})
		case "sparse":
			seqRet(func() []int { return s.Sparse() })
		case "filter":
			seqRet(func() []int { return s.Filter(odd) })
		case "filterfuture":
			seqRet(func() []int { return s.FilterFuture(odd).Resolve() })
		case "empty":
			pan = call(func() { s.Empty() })
		case "reset":
			pan = call(func() { s.Reset() })
		case "zero":
			pan = call(func() { s.Zero() })
		case "sort":
			pan = call(func() {
				if st.Dir == "desc" {
					s.Sort(func(a, b int) bool { return a > b })
				} else {
					s.Sort(func(a, b int) bool { return a < b })
				}
			})
		case "index":
			pan = call(func() { got = str(s.Index(st.I)) })
			if st.Pan == 0 {
				want = str(mustInt(st.Ret))
			}
		case "ptr":
			pan = call(func() {
				p := s.Ptr(st.I)
				got = str(*p)
				if p != &s[st.I] {
					got = "a pointer to something else"
				}
			})
			if st.Pan == 0 {
				want = str(mustInt(st.Ret))
			}
		case "reslice":
			pan = call(func() { s.Reslice(st.I, st.J) })
		case "reslicebeginning":
			pan = call(func() { s.ResliceBeginning(st.I) })
		case "resliceend":
			pan = call(func() { s.ResliceEnd(st.I) })
		case "truncate":
			pan = call(func() { s.Truncate(st.I) })
		case "fillto":
			seqRet(func() []int { return s.FillTo(st.I) })
		case "grow":
			pan = call(func() { s.Grow(st.I) })
		case "growcapacity":
			pan = call(func() { s.GrowCapacity(st.I) })
		case "zerorange":
			pan = call(func() { s.ZeroRange(st.I, st.J) })
		default:
			panic("vh-dtcoll: unknown slice op " + st.Op)
		}
		if pan != "" && st.Pan == 0 {
			return fail(in, k, "slice", st.Op, "unexpected-panic", "the call panicked: "+pan)
		}
		if pan == "" && st.Pan == 1 {
			return fail(in, k, "slice", st.Op, "missing-panic", "the spec expects a panic, the call returned "+got)
		}
		if pan == "" && got != want {
			return fail(in, k, "slice", st.Op, "return-value", fmt.Sprintf("returned %s, spec %s", got, want))
		}
		if len(s) != len(exp) || str([]int(s)) != str(exp) {
			return fail(in, k, "slice", st.Op, "state", fmt.Sprintf("the slice holds %v, spec %v", []int(s), exp))
		}
	}
	return result{"n": in.N, "ok": true, "steps": len(in.Beh)}
}

// ------------------------------------------------------------------ Optional

type optProj struct {
	V int `json:"v"`
	D int `json:"d"`
}

func replayOptional(in input) result {
	var o dt.Optional[int]
	for k, st := range in.Beh {
		var exp optProj
		if err := json.Unmarshal(st.St, &exp); err != nil {
			panic("vh-dtcoll: bad optional projection: " + string(st.St))
		}
		got, want := "", ""
		var pan string
		cond := st.C == 1
		calls := 0
		fut := fun.Future[int](func() int { calls++; return st.V })
		switch st.Op {
		case "new":
			if exp.D == 1 {
				o = dt.NewOptional(exp.V)
			} else {
				o = dt.Optional[int]{}
			}
		case "set":
			pan = call(func() { o.Set(st.V) })
		case "handler":
			pan = call(func() { o.Handler()(st.V) })
		case "setwhen":
			pan = call(func() { o.SetWhen(cond, st.V); got = "0" })
			want = str(mustInt(st.Ret))
		case "setwhenfuture":
			pan = call(func() { o.SetWhenFuture(cond, fut); got = str(calls) })
			want = str(mustInt(st.Ret))
		case "default":
			pan = call(func() { o.Default(st.V); got = "0" })
			want = str(mustInt(st.Ret))
		case "defaultfuture":
			pan = call(func() { o.DefaultFuture(fut); got = str(calls) })
			want = str(mustInt(st.Ret))
		case "resolve":
			pan = call(func() { got = str(o.Resolve()) })
			want = str(mustInt(st.Ret))
		case "future":
			pan = call(func() { got = str(o.Future()()) })
			want = str(mustInt(st.Ret))
		case "get":
			pan = call(func() {
				v, ok := o.Get()
				b := 0
				if ok {
					b = 1
				}
				got = str([]int{v, b})
			})
			want = str(mustInts(st.Ret))
		case "ok":
			pan = call(func() { got = bstr(o.Ok()) })
			want = mustStr(st.Ret)
		case "value":
			pan = call(func() {
				v, err := o.Value()
				switch {
				case err != nil:
					got = errstr(err)
				case v == nil:
					got = "nil"
				default:
					got = str(v)
				}
			})
			want = mustStr(st.Ret)
		case "marshaltext":
			pan = call(func() {
				b, err := o.MarshalText()
				got = string(b)
				if err != nil {
					got = errstr(err)
				}
			})
			want = mustStr(st.Ret)
		case "reset":
			pan = call(func() { o.Reset() })
		case "swap":
			pan = call(func() { got = str(o.Swap(st.V)) })
			want = str(mustInt(st.Ret))
		case "unmarshaltext":
			pan = call(func() { got = errstr(o.UnmarshalText([]byte(strconv.Itoa(st.V)))) })
			want = mustStr(st.Ret)
		case "scan":
			pan = call(func() { got = errstr(o.Scan(st.V)) })
			want = mustStr(st.Ret)
		case "scannil":
			pan = call(func() { got = errstr(o.Scan(nil)) })
			want = mustStr(st.Ret)
		default:
			panic("vh-dtcoll: unknown optional op " + st.Op)
		}
		if pan != "" && st.Pan == 0 {
			return fail(in, k, "optional", st.Op, "unexpected-panic", "the call panicked: "+pan)
		}
		if pan == "" && st.Pan == 1 {
			return fail(in, k, "optional", st.Op, "missing-panic", "the spec expects a panic, the call returned "+got)
		}
		if pan == "" && got != want {
			return fail(in, k, "optional", st.Op, "return-value", fmt.Sprintf("returned %s, spec %s", got, want))
		}
		v, ok := o.Get()
		if v != exp.V || ok != (exp.D == 1) || o.Ok() != ok || o.Resolve() != v {
			return fail(in, k, "optional", st.Op, "state", fmt.Sprintf("Get() = (%d, %v), Ok() = %v, Resolve() = %d; spec (%d, %v)", v, ok, o.Ok(), o.Resolve(), exp.V, exp.D == 1))
		}
	}
	return result{"n": in.N, "ok": true, "steps": len(in.Beh)}
}
