// vh-queue binds spec/queue to pubsub.Queue (properties C05, C07, C20).
//
//	vh-queue seq      < behaviours     sequential replay of QueueSeq behaviours (exact expectations)
//	vh-queue sched    < schedules      execute quiescence-stepped schedules of QueueStep, print histories
//	vh-queue record N SEED             random concurrent histories
package main

import (
	"encoding/json"
	"fmt"
	"os"
	"strconv"
	"sync/atomic"

	"github.com/tychoish/fun/pubsub"
	"verif/harness/rt"
)

var gates atomic.Pointer[rt.Gates]

func main() {
	pubsub.VerifHook = func(p string) {
		if g := gates.Load(); g != nil {
			g.Arrive(p)
		}
	}
	if len(os.Args) < 2 {
		fmt.Fprintln(os.Stderr, "usage: vh-queue seq|sched|record")
		os.Exit(2)
	}
	if len(os.Args) > 2 && (os.Args[len(os.Args)-1] == "deque" || os.Args[len(os.Args)-1] == "queue") {
		which = os.Args[len(os.Args)-1]
	}
	switch os.Args[1] {
	case "seq":
		rt.ReadLines(func(_ int, raw json.RawMessage) {
			var in seqInput
			if err := json.Unmarshal(raw, &in); err != nil {
				panic(err)
			}
			rt.Emit(map[string]any{"begin": in.N})
			rt.Flush()
			rt.Emit(replaySeq(in))
			rt.Flush()
		})
	case "sched":
		rt.ReadLines(func(_ int, raw json.RawMessage) {
			var in schedInput
			if err := json.Unmarshal(raw, &in); err != nil {
				panic(err)
			}
			rt.Emit(map[string]any{"begin": in.N})
			rt.Flush()
			rt.Emit(runSched(in))
			rt.Flush()
		})
	case "record":
		n, _ := strconv.Atoi(os.Args[2])
		seed, _ := strconv.Atoi(os.Args[3])
		record(n, int64(seed))
	case "storm": // storm ROUNDS K PROCS consume|produce [queue|deque]
		rounds, _ := strconv.Atoi(os.Args[2])
		k, _ := strconv.Atoi(os.Args[3])
		procs, _ := strconv.Atoi(os.Args[4])
		storm(rounds, k, procs, os.Args[5])
	}
	rt.Flush()
}
