package main

import (
	"context"
	"fmt"
	"runtime"
	"sort"

	"verif/harness/rt"
)

// storm runs many unsynchronised rounds and observes ONE quiescent point at the end (cf. vh-waitgroup storm).
// In every round a fresh container is used by k blocking operations and k operations that enable them, all
// released from a barrier; the driver waits for nothing in between, so the enabling operation lands at every
// point of the blocking operation's entry sequence (predicate check, helper start, parking) - windows that no
// yield point marks.  An operation that missed its wake-up stays parked for ever, so the blocked set at the
// final quiescent point is exact.  Each round is recorded as a history (call / ret / final quiescent event) in
// the vocabulary of the LinTrace specs; histories whose final state still has a blocked operation - and a sample
// of the others - are printed and judged by TLC (LinTraceStrict: nothing enabled may be blocked at quiescence).
//
//	consume:   unlimited container; k waiting consumers + k pushes        (all consumers must return, Len 0)
//	produce:   capacity 1, pre-filled; k blocking producers + k pops      (producers blocked only if full)
//	closewake: unlimited container; k waiting consumers + Close           (all consumers must return "closed")
//	closefull: capacity 1, pre-filled; k blocking producers + Close       (all producers must return "closed")
func storm(rounds, k, procs int, scenario string) {
	runtime.GOMAXPROCS(procs)
	if which == "deque" && k > 1 {
		k = 1 // two waiters on one Deque condition variable busy-loop for ever (DESIGN.md 3.3)
	}
	type round struct {
		q    container
		rec  *rt.Recorder
		ops  []*rt.Op
		kind string
		hard int
	}
	ctx, cancel := context.WithCancel(context.Background())
	rs := make([]*round, 0, rounds)
	for r := 0; r < rounds; r++ {
		rd := &round{rec: &rt.Recorder{}, kind: "nolimit"}
		var blockOp, enableOp string
		closing := scenario == "closewake" || scenario == "closefull"
		switch {
		case scenario == "closewake" && which == "queue":
			blockOp, enableOp = []string{"wait", "drecv"}[r%2], "close"
		case scenario == "closewake":
			blockOp, enableOp = []string{"wfront", "wback", "drecv"}[r%3], "close"
		case scenario == "closefull" && which == "queue":
			rd.kind, rd.hard, blockOp, enableOp = "quota", 1, "badd", "close"
		case scenario == "closefull":
			rd.kind, rd.hard, blockOp, enableOp = "hard", 1, []string{"wpushb", "wpushf", "dsend"}[r%3], "close"
		case scenario == "consume" && which == "queue":
			blockOp, enableOp = []string{"wait", "drecv"}[r%2], []string{"add", "dsend"}[(r/2)%2]
		case scenario == "consume":
			blockOp, enableOp = []string{"wfront", "wback", "drecv"}[r%3], []string{"pushb", "pushf"}[(r/3)%2]
		case which == "queue":
			rd.kind, rd.hard, blockOp, enableOp = "quota", 1, "badd", "remove"
		default:
			rd.kind, rd.hard, blockOp, enableOp = "hard", 1, []string{"wpushb", "wpushf", "dsend"}[r%3], []string{"popf", "popb"}[(r/3)%2]
		}
		q, err := newContainer(rd.kind, rd.hard, 0, 0)
		if err != nil {
			panic(err)
		}
		rd.q = q
		id := 0
		if scenario == "produce" || scenario == "closefull" {
			id++
			fill := map[string]string{"queue": "add", "deque": "pushb"}[which]
			rd.rec.Log(rt.Event{"ev": "call", "id": id, "op": fill, "arg": "v0"})
			res := q.Do(ctx, fill, "v0")
			rd.rec.Log(rt.Event{"ev": "ret", "id": id, "res": res})
		}
		start := make(chan struct{})
		launch := func(op, arg string) {
			id++
			myid := id
			rd.ops = append(rd.ops, rt.Start(myid, func() any {
				<-start
				rd.rec.Log(rt.Event{"ev": "call", "id": myid, "op": op, "arg": arg})
				res := q.Do(ctx, op, arg)
				rd.rec.Log(rt.Event{"ev": "ret", "id": myid, "res": res})
				return res
			}))
		}
		for i := 0; i < k; i++ {
			arg := ""
			if scenario == "produce" || scenario == "closefull" {
				arg = fmt.Sprintf("p%d", i+1)
			}
			launch(blockOp, arg)
		}
		nenable := k
		if closing {
			nenable = 1
		}
		for i := 0; i < nenable; i++ {
			arg := ""
			if scenario == "consume" {
				arg = fmt.Sprintf("v%d", i+1)
			}
			launch(enableOp, arg)
		}
		close(start)
		rs = append(rs, rd)
		if r%64 == 63 {
			runtime.Gosched()
		}
	}
	out := map[string]any{"storm": rounds, "k": k, "procs": procs, "scenario": scenario, "which": which}
	if _, err := rt.QuiesceBudget(20000); err != nil {
		out["inconclusive"] = "no quiescence after the storm"
		cancel()
		rt.Emit(out)
		return
	}
	suspicious, printed := 0, 0
	for r, rd := range rs {
		blocked := []int{}
		for _, o := range rd.ops {
			if !o.Done() {
				blocked = append(blocked, o.ID)
			}
		}
		sort.Ints(blocked)
		if len(blocked) == 0 && printed >= 40 {
			continue
		}
		if len(blocked) > 0 {
			suspicious++
			if suspicious > 60 {
				continue
			}
		} else {
			printed++
		}
		hist := []rt.Event{{"ev": "reset", "kind": rd.kind, "hard": rd.hard, "soft": 0, "credit": 0}}
		hist = append(hist, rd.rec.Events()...)
		hist = append(hist, rt.Event{"ev": "quiescent", "blocked": blocked, "len": rd.q.Len(), "seq": int64(1 << 30)})
		rt.Emit(map[string]any{"hist": hist, "round": r, "nblocked": len(blocked)})
	}
	out["rounds_with_blocked_ops"] = suspicious
	cancel()
	rt.Quiesce()
	rt.Emit(out)
}
