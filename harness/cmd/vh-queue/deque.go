package main

import (
	"context"
	"strconv"

	"github.com/tychoish/fun/pubsub"
)

type dequeC struct {
	q  *pubsub.Deque[string]
	d  pubsub.Distributor[string]
	nb pubsub.Distributor[string]
}

func newDeque(kind string, hard, soft, credit int) (container, error) {
	var opts pubsub.DequeOptions
	switch kind {
	case "nolimit":
		opts.Unlimited = true
	case "hard":
		opts.Capacity = hard
	default:
		opts.QueueOptions = &pubsub.QueueOptions{HardLimit: hard, SoftQuota: soft, BurstCredit: float64(credit)}
	}
	q, err := pubsub.NewDeque[string](opts)
	if err != nil {
		return nil, err
	}
	return &dequeC{q: q, d: q.Distributor(), nb: q.DistributorNonBlocking()}, nil
}

func (c *dequeC) Len() int { return c.q.Len() }
func (c *dequeC) Close()   { c.q.Close() }
func (c *dequeC) Drain(max int) []string {
	var rest []string
	for i := 0; i < max; i++ {
		v, ok := c.q.PopFront()
		if !ok {
			break
		}
		rest = append(rest, v)
	}
	return rest
}

func item(v string, err error) string {
	if err != nil {
		return errName(err)
	}
	return v
}

func popped(v string, ok bool) string {
	if !ok {
		return "none"
	}
	return v
}

func (c *dequeC) Do(ctx context.Context, op, arg string) string {
	q := c.q
	switch op {
	case "pushf":
		return errName(q.PushFront(arg))
	case "pushb":
		return errName(q.PushBack(arg))
	case "popf":
		return popped(q.PopFront())
	case "popb":
		return popped(q.PopBack())
	case "fpushf":
		return errName(q.ForcePushFront(arg))
	case "fpushb":
		return errName(q.ForcePushBack(arg))
	case "nbsend":
		return errName(c.nb.Send(ctx, arg))
	case "wfront":
		return item(q.WaitFront(ctx))
	case "wback":
		return item(q.WaitBack(ctx))
	case "wpushf":
		return errName(q.WaitPushFront(ctx, arg))
	case "wpushb":
		return errName(q.WaitPushBack(ctx, arg))
	case "dsend":
		return errName(c.d.Send(ctx, arg))
	case "drecv":
		return item(c.d.Receive(ctx))
	case "len":
		return strconv.Itoa(q.Len())
	case "dlen":
		return strconv.Itoa(c.d.Len())
	case "close":
		return errName(q.Close())
	}
	panic("unknown deque op " + op)
}
