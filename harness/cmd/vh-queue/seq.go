package main

import (
	"context"
	"errors"
	"fmt"
	"strconv"

	"github.com/tychoish/fun/pubsub"
	"verif/harness/rt"
)

type seqStep struct {
	Op     string   `json:"op"`
	Arg    string   `json:"arg"`
	Res    string   `json:"res"`
	Amb    bool     `json:"amb"`
	Len    int      `json:"len"`
	Items  []string `json:"items"`
	Hard   int      `json:"hard"`
	Soft   int      `json:"soft"`
	Credit int      `json:"credit"`
	Closed bool     `json:"closed"`
}

type seqInput struct {
	N   int       `json:"n"`
	Beh []seqStep `json:"beh"`
}

// container is what the replayers drive: a Queue or a Deque behind the op vocabulary of the specs.
type container interface {
	Do(ctx context.Context, op, arg string) string
	Len() int
	Close()
	Drain(max int) []string // destructive, front first
}

var which = "queue" // "queue" | "deque", set from the command line

func newContainer(kind string, hard, soft, credit int) (container, error) {
	if which == "deque" {
		return newDeque(kind, hard, soft, credit)
	}
	return newQueue(kind, hard, soft, credit)
}

type queueC struct {
	q *pubsub.Queue[string]
	d pubsub.Distributor[string]
}

func newQueue(kind string, hard, soft, credit int) (container, error) {
	var q *pubsub.Queue[string]
	var err error
	if kind == "nolimit" {
		q = pubsub.NewUnlimitedQueue[string]()
	} else {
		q, err = pubsub.NewQueue[string](pubsub.QueueOptions{HardLimit: hard, SoftQuota: soft, BurstCredit: float64(credit)})
	}
	if err != nil {
		return nil, err
	}
	return &queueC{q: q, d: q.Distributor()}, nil
}

func (c *queueC) Len() int { return c.q.Len() }
func (c *queueC) Close()   { c.q.Close() }
func (c *queueC) Drain(max int) []string {
	var rest []string
	for i := 0; i < max; i++ {
		v, ok := c.q.Remove()
		if !ok {
			break
		}
		rest = append(rest, v)
	}
	return rest
}

// errName maps an error of the Queue API to the result vocabulary of QueueCore.
func errName(err error) string {
	switch {
	case err == nil:
		return "ok"
	case errors.Is(err, pubsub.ErrQueueFull):
		return "full"
	case errors.Is(err, pubsub.ErrQueueNoCredit):
		return "nocredit"
	case errors.Is(err, pubsub.ErrQueueClosed):
		return "closed"
	case errors.Is(err, context.Canceled), errors.Is(err, context.DeadlineExceeded):
		return "ctx"
	}
	return "err:" + err.Error()
}

// Do performs one operation and returns its result in spec vocabulary.
func (c *queueC) Do(ctx context.Context, op, arg string) string {
	q, d := c.q, c.d
	switch op {
	case "add":
		return errName(q.Add(arg))
	case "dsend":
		return errName(d.Send(ctx, arg))
	case "remove":
		v, ok := q.Remove()
		if !ok {
			return "none"
		}
		return v
	case "len":
		return strconv.Itoa(q.Len())
	case "dlen":
		return strconv.Itoa(d.Len())
	case "close":
		return errName(q.Close())
	case "wait":
		v, err := q.Wait(ctx)
		if err != nil {
			return errName(err)
		}
		return v
	case "drecv":
		v, err := d.Receive(ctx)
		if err != nil {
			return errName(err)
		}
		return v
	case "badd":
		return errName(q.BlockingAdd(ctx, arg))
	}
	panic("unknown op " + op)
}

func seqFail(in seqInput, k int, key, what string) map[string]any {
	return map[string]any{"n": in.N, "ok": false, "step": k, "key": key, "what": what}
}

func replaySeq(in seqInput) map[string]any {
	c0 := in.Beh[0]
	q, err := newContainer(c0.Res, c0.Hard, c0.Soft, c0.Credit)
	if err != nil {
		return seqFail(in, 0, which+"/new-rejected", "valid options rejected: "+err.Error())
	}
	live := context.Background()
	dead, cancel := context.WithCancel(context.Background())
	cancel()
	for k := 1; k < len(in.Beh); k++ {
		st := in.Beh[k]
		op, ctx := st.Op, live
		if n := len(op); n > 10 && op[n-10:] == "-cancelled" {
			op, ctx = op[:n-10], dead
		}
		var got string
		switch op {
		case "wait", "drecv", "badd", "wfront", "wback", "wpushf", "wpushb", "dsend":
			// must not block here: judged at quiescence, never by time
			o := rt.Start(k, func() any { return q.Do(ctx, op, st.Arg) })
			if _, err := rt.Quiesce(); err != nil {
				return map[string]any{"n": in.N, "ok": true, "inconclusive": "no quiescence"}
			}
			if !o.Done() {
				return seqFail(in, k, which+"/"+st.Op+"/blocked-when-enabled",
					fmt.Sprintf("%s did not return although the spec says it completes with %q (len %d)", st.Op, st.Res, st.Len))
			}
			got = fmt.Sprint(o.Res)
		default:
			func() {
				defer func() {
					if r := recover(); r != nil {
						got = fmt.Sprintf("panic:%v", r)
					}
				}()
				got = q.Do(ctx, op, st.Arg)
			}()
		}
		if got != st.Res {
			if st.Amb {
				return map[string]any{"n": in.N, "ok": true, "ambiguous": k}
			}
			return seqFail(in, k, which+"/"+st.Op+"/result", fmt.Sprintf("%s(%s) = %q, spec %q", st.Op, st.Arg, got, st.Res))
		}
		if l := q.Len(); l != st.Len {
			return seqFail(in, k, which+"/len", fmt.Sprintf("Len()=%d after %s, spec %d", l, st.Op, st.Len))
		}
	}
	// contents: drain and compare with the spec's sequence (FIFO, nothing lost or invented)
	last := in.Beh[len(in.Beh)-1]
	if last.Closed {
		// a closed Deque refuses pops; its contents are no longer observable through the API
		return map[string]any{"n": in.N, "ok": true}
	}
	rest := q.Drain(len(last.Items) + 2)
	if fmt.Sprint(rest) != fmt.Sprint(last.Items) && !(len(rest) == 0 && len(last.Items) == 0) {
		return seqFail(in, len(in.Beh), which+"/contents", fmt.Sprintf("draining gives %v, spec %v", rest, last.Items))
	}
	return map[string]any{"n": in.N, "ok": true}
}
