package main

import (
	"context"
	"fmt"
	"math/rand"
	"runtime"
	"sort"
	"sync"

	"verif/harness/rt"
)

const window = "pubsub.wait.before-cond-wait"

type schedStep struct {
	Op     string `json:"op"`
	Arg    string `json:"arg"`
	Target int    `json:"target"`
	Window bool   `json:"window"`
	Burst  bool   `json:"burst"` // issued right after the previous step, without waiting for quiescence
	Hard   int    `json:"hard"`
	Soft   int    `json:"soft"`
	Credit int    `json:"credit"`
}

type schedInput struct {
	N     int         `json:"n"`
	Beh   []schedStep `json:"beh"`
	Procs int         `json:"procs"` // GOMAXPROCS for this schedule (0: leave as started)
}

type pendOp struct {
	op     *rt.Op
	cancel context.CancelFunc
}

func pendingIDs(p map[int]*pendOp) []int {
	ids := []int{}
	for id, o := range p {
		if !o.op.Done() {
			ids = append(ids, id)
		}
	}
	sort.Ints(ids)
	return ids
}

// runSched executes one quiescence-stepped schedule and returns the recorded history.
func runSched(in schedInput) map[string]any {
	if in.Procs > 0 {
		// with one P the steps of a burst, run synchronously by this goroutine, are atomic with respect
		// to the goroutines they wake; with several the other interleavings are sampled
		defer runtime.GOMAXPROCS(runtime.GOMAXPROCS(in.Procs))
	}
	c0 := in.Beh[0]
	q, err := newContainer(c0.Arg, c0.Hard, c0.Soft, c0.Credit)
	if err != nil {
		return map[string]any{"n": in.N, "ok": false, "key": which + "/new-rejected", "what": err.Error()}
	}
	g := rt.NewGates()
	gates.Store(g)
	rec := &rt.Recorder{}
	hist := []rt.Event{{"ev": "reset", "kind": c0.Arg, "hard": c0.Hard, "soft": c0.Soft, "credit": c0.Credit}}
	pend := map[int]*pendOp{}
	defer func() {
		g.Disarm(window)
		for _, p := range pend {
			p.cancel()
		}
		q.Close()
	}()
	inconclusive := func(why string) map[string]any {
		return map[string]any{"n": in.N, "ok": true, "inconclusive": why}
	}
	for k := 1; k < len(in.Beh); k++ {
		st := in.Beh[k]
		id := k + 1 // the spec's Id: position in hist
		// inside a burst (this step is followed by a burst step, or is one) nothing yields between the
		// steps: non-blocking operations run synchronously in this goroutine, no quiescent observation
		inBurst := st.Burst || (k+1 < len(in.Beh) && in.Beh[k+1].Burst)
		moreBurst := k+1 < len(in.Beh) && in.Beh[k+1].Burst
		switch {
		case st.Op == "cancel":
			rec.Log(rt.Event{"ev": "cancel", "id": st.Target})
			pend[st.Target].cancel()
			if in.Beh[k-1].Window {
				// the target is held at the yield point (it holds the mutex): let the helper goroutine
				// run into the mutex, then let the target park
				if _, err := rt.Quiesce(); err != nil {
					return inconclusive("no quiescence after cancel")
				}
				g.Disarm(window)
				if moreBurst {
					if _, err := rt.Quiesce(); err != nil {
						return inconclusive("no quiescence after cancel")
					}
					continue
				}
			} else if moreBurst {
				continue
			}
		case inBurst && !isBlockingOp(st.Op):
			op, arg := st.Op, st.Arg
			rec.Log(rt.Event{"ev": "call", "id": id, "op": op, "arg": arg})
			r := func() (res string) {
				defer func() {
					if p := recover(); p != nil {
						res = fmt.Sprintf("panic:%v", p)
					}
				}()
				return q.Do(context.Background(), op, arg)
			}()
			rec.Log(rt.Event{"ev": "ret", "id": id, "res": r})
			if moreBurst {
				continue
			}
		default:
			if which == "deque" && dequeBlocking[st.Op] {
				// which of several blocked operations an item resolves is the scheduler's choice, so the
				// real run may still have a waiter of this class where the spec's run had none.  Two
				// waiters on one Deque cond busy-loop (never quiescent, not a listed property): the
				// schedule ends here; the history recorded so far is complete and is still validated.
				clash := false
				for pid, p := range pend {
					if !p.op.Done() && dequeBlocking[in.Beh[pid-1].Op] && dequeClass(in.Beh[pid-1].Op) == dequeClass(st.Op) {
						clash = true
					}
				}
				if clash {
					return map[string]any{"n": in.N, "ok": true, "truncated": k, "hist": append(hist, rec.Events()...)}
				}
			}
			ctx, cancel := context.WithCancel(context.Background())
			if st.Window {
				g.Arm(window)
			}
			op, arg := st.Op, st.Arg
			rec.Log(rt.Event{"ev": "call", "id": id, "op": op, "arg": arg})
			o := rt.Start(id, func() any {
				r := q.Do(ctx, op, arg)
				rec.Log(rt.Event{"ev": "ret", "id": id, "res": r})
				return r
			})
			pend[id] = &pendOp{op: o, cancel: cancel}
			if st.Window {
				if _, err := rt.Quiesce(); err != nil || g.Waiting(window) != 1 {
					return inconclusive("yield point " + window + " not reached")
				}
				continue // the next step cancels it; no quiescent observation inside the window
			}
			if moreBurst {
				// a blocking operation started at the head of a burst: let it reach its parking place first
				if _, err := rt.Quiesce(); err != nil {
					return inconclusive(fmt.Sprintf("no quiescence after step %d", k))
				}
				continue
			}
		}
		if _, err := rt.Quiesce(); err != nil {
			return inconclusive(fmt.Sprintf("no quiescence after step %d", k))
		}
		for id, p := range pend {
			if p.op.Done() && p.op.Pan != nil {
				rec.Log(rt.Event{"ev": "ret", "id": id, "res": fmt.Sprintf("panic:%v", p.op.Pan)})
				p.op.Pan = nil
			}
		}
		rec.Log(rt.Event{"ev": "quiescent", "blocked": pendingIDs(pend), "len": q.Len()})
	}
	return map[string]any{"n": in.N, "ok": true, "hist": append(hist, rec.Events()...)}
}

func isBlockingOp(op string) bool {
	return dequeBlocking[op] || op == "wait" || op == "drecv" || op == "badd"
}

var dequeBlocking = map[string]bool{"wfront": true, "wback": true, "drecv": true, "wpushf": true, "wpushb": true, "dsend": true}

func dequeClass(op string) int {
	switch op {
	case "wfront", "drecv":
		return 0
	case "wback":
		return 1
	}
	return 2
}

// record runs n random concurrent scenarios (no stepping: real overlap) and prints histories.
func record(n int, seed int64) {
	rng := rand.New(rand.NewSource(seed))
	cfgs := []schedStep{{Arg: "nolimit"}, {Arg: "quota", Hard: 1}, {Arg: "quota", Hard: 2}, {Arg: "quota", Hard: 2, Soft: 1},
		{Arg: "quota", Hard: 3, Soft: 2, Credit: 1}, {Arg: "quota", Hard: 3, Soft: 1}, {Arg: "quota", Hard: 4, Soft: 2, Credit: 2}}
	ops := []string{"add", "add", "dsend", "remove", "remove", "len", "dlen", "wait", "drecv", "badd", "badd", "close"}
	blocking := map[string]bool{"wait": true, "drecv": true, "badd": true}
	pushes := map[string]bool{"add": true, "dsend": true, "badd": true}
	fallback := "add"
	if which == "deque" {
		cfgs = []schedStep{{Arg: "nolimit"}, {Arg: "hard", Hard: 1}, {Arg: "hard", Hard: 2}, {Arg: "hard", Hard: 3},
			{Arg: "quota", Hard: 2, Soft: 1}, {Arg: "quota", Hard: 3, Soft: 2, Credit: 1}}
		ops = []string{"pushf", "pushb", "pushb", "popf", "popb", "popf", "fpushf", "fpushb", "nbsend", "len", "dlen",
			"wfront", "wback", "drecv", "wpushf", "wpushb", "dsend", "close"}
		blocking = map[string]bool{"wfront": true, "wback": true, "drecv": true, "wpushf": true, "wpushb": true, "dsend": true}
		pushes = map[string]bool{"pushf": true, "pushb": true, "fpushf": true, "fpushb": true, "nbsend": true, "wpushf": true, "wpushb": true, "dsend": true}
		fallback = "pushb"
	}
	for i := 0; i < n; i++ {
		runtime.GOMAXPROCS(1 + rng.Intn(8))
		c0 := cfgs[rng.Intn(len(cfgs))]
		q, _ := newContainer(c0.Arg, c0.Hard, c0.Soft, c0.Credit)
		gates.Store(nil)
		rec := &rt.Recorder{}
		hist := []rt.Event{{"ev": "reset", "kind": c0.Arg, "hard": c0.Hard, "soft": c0.Soft, "credit": c0.Credit}}
		var mu sync.Mutex
		nextID := 0
		newID := func() int { mu.Lock(); defer mu.Unlock(); nextID++; return nextID }
		cancels := map[int]context.CancelFunc{}
		var sw sync.WaitGroup
		start := make(chan struct{})
		nthreads := 2 + rng.Intn(3)
		for t := 0; t < nthreads; t++ {
			t := t
			r := rand.New(rand.NewSource(rng.Int63()))
			sw.Add(1)
			go func() {
				defer sw.Done()
				<-start
				for j, nops := 0, 2+r.Intn(5); j < nops; j++ {
					id := newID()
					op := ops[r.Intn(len(ops))]
					if op == "close" && r.Intn(3) != 0 {
						op = fallback
					}
					if which == "deque" && blocking[op] && dequeClass(op) != t {
						// the pinned Deque busy-loops with two waiters on one cond (never quiescent,
						// not a listed property): at most one goroutine per waiter class
						op = fallback
					}
					arg := ""
					if pushes[op] {
						arg = fmt.Sprintf("v%d", id)
					}
					ctx, cancel := context.WithCancel(context.Background())
					mu.Lock()
					cancels[id] = cancel
					mu.Unlock()
					rec.Log(rt.Event{"ev": "call", "id": id, "op": op, "arg": arg})
					if blocking[op] && r.Intn(3) == 0 {
						y := r.Intn(30)
						go func() {
							for ; y > 0; y-- {
								runtime.Gosched()
							}
							rec.Log(rt.Event{"ev": "cancel", "id": id})
							cancel()
						}()
					}
					var res string
					func() {
						defer func() {
							if p := recover(); p != nil {
								res = fmt.Sprintf("panic:%v", p)
							}
						}()
						res = q.Do(ctx, op, arg)
					}()
					rec.Log(rt.Event{"ev": "ret", "id": id, "res": res})
				}
			}()
		}
		close(start)
		quiet := func() {
			if _, err := rt.Quiesce(); err != nil {
				return
			}
			pend := map[int]bool{}
			for _, e := range rec.Events() {
				switch e["ev"] {
				case "call":
					pend[e["id"].(int)] = true
				case "ret":
					delete(pend, e["id"].(int))
				}
			}
			ids := []int{}
			for k := range pend {
				ids = append(ids, k)
			}
			sort.Ints(ids)
			rec.Log(rt.Event{"ev": "quiescent", "blocked": ids, "len": q.Len()})
		}
		quiet()
		// release everybody: close the queue (blocked consumers/producers must return), then cancel
		id := newID()
		rec.Log(rt.Event{"ev": "call", "id": id, "op": "close", "arg": ""})
		q.Close()
		rec.Log(rt.Event{"ev": "ret", "id": id, "res": "ok"})
		quiet()
		mu.Lock()
		for k, c := range cancels {
			rec.Log(rt.Event{"ev": "cancel", "id": k})
			c()
		}
		mu.Unlock()
		sw.Wait()
		rt.Emit(map[string]any{"hist": append(hist, rec.Events()...)})
	}
}
