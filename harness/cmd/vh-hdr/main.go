// vh-hdr binds spec/hdr to dt/hdrhist (property C19).
//
//	vh-hdr replay < behaviours.ndjson
//
// Every behaviour of Hdr.tla is replayed on a real Histogram (or WindowedHistogram); after each call
// TotalCount, ValueAtQuantile(100 r/total) for every rank r, Min and Max are compared with the
// intervals the spec states, Export/Import and Merge-into-empty with Equals; every call runs under
// recover: a panic (the library's internal invariants) is a violation with its own key.
//
// Large magnitudes: an input line may carry "scale" c and "lift" k.  The behaviour is then executed on
// New(min<<c, max<<(k+c), sf) with every value v replaced by TVal(v) (v<<c below the shape's liftfrom,
// v<<(k+c) from there on) and judged with TransExpect of Hdr.tla applied to the printed expectations
// (xform.apply below is its transcription; `vh-hdr xform` prints what it computes so that the check can
// compare it with TransExpect as evaluated by TLC).
package main

import (
	"encoding/json"
	"fmt"
	"os"

	"github.com/tychoish/fun/dt/hdrhist"
	"verif/harness/rt"
)

type step struct {
	Op      string  `json:"op"`
	V       int64   `json:"v"`
	N       int64   `json:"n"`
	Min     int64   `json:"min"`
	Max     int64   `json:"max"`
	Sf      int     `json:"sf"`
	Win     int     `json:"win"`
	Total   int64   `json:"total"`
	Sorted  []int64 `json:"sorted"`
	Hi      []int64 `json:"hi"`
	Prec    []int64 `json:"prec"`
	Minlo   int64   `json:"minlo"`
	Dropped int64   `json:"dropped"`
	// "new" only: constants of TransExpect
	LiftFrom int64 `json:"liftfrom"`
	Pu       int64 `json:"pu"`
	Pd       int64 `json:"pd"`
}

type input struct {
	N     int    `json:"n"`
	Beh   []step `json:"beh"`
	Scale uint   `json:"scale"`
	Lift  uint   `json:"lift"`
}

// xform is TransExpect / TVal / TShape of Hdr.tla for one behaviour
type xform struct {
	c, k             uint
	liftFrom, pu, pd int64
}

func newXform(in input) xform {
	n := in.Beh[0]
	x := xform{c: in.Scale, k: in.Lift, liftFrom: n.LiftFrom, pu: n.Pu, pd: n.Pd}
	if x.c+x.k > 0 {
		if n.Pu <= 0 || n.Pd <= 0 || n.LiftFrom <= 0 {
			panic("scaled replay of a behaviour without liftfrom/pu/pd")
		}
		if x.c+x.k > 61 || n.Max >= (int64(1)<<62)>>(x.c+x.k) {
			panic(fmt.Sprintf("scale %d lift %d takes max %d to 2^62 or beyond", x.c, x.k, n.Max))
		}
		if 2*n.LiftFrom > (int64(1)<<62)>>x.c {
			panic(fmt.Sprintf("scale %d takes subBucketCount<<unitMagnitude = %d beyond 2^62", x.c, 2*n.LiftFrom))
		}
	}
	return x
}

func (x xform) identity() bool { return x.c+x.k == 0 }

// fac: the exponent of Fac(s, k, c, v)
func (x xform) fac(v int64) uint {
	if v >= x.liftFrom {
		return x.k + x.c
	}
	return x.c
}

func (x xform) val(v int64) int64 {
	if x.identity() {
		return v
	}
	return v << x.fac(v)
}

// apply transforms the expectations of a step (and its arguments) in place
func (x xform) apply(st *step) {
	if x.identity() {
		return
	}
	switch st.Op {
	case "new":
		st.Min, st.Max = st.Min<<x.c, st.Max<<(x.k+x.c)
	case "corr":
		if x.k != 0 {
			panic("RecordCorrectedValue is not invariant under lift")
		}
		st.V, st.N = st.V<<x.c, st.N<<x.c
	case "rec", "recn", "grec":
		st.V = x.val(st.V)
	}
	if st.Total > 0 {
		st.Minlo = ((st.Minlo - 1) << x.fac(st.Sorted[0])) + 1
	}
	for r := range st.Sorted {
		f := x.fac(st.Sorted[r])
		st.Hi[r] = ((st.Hi[r] + 1) << f) - 1
		st.Sorted[r] <<= f
		st.Prec[r] = x.pu << x.c
		if p := st.Sorted[r] / x.pd; p > st.Prec[r] {
			st.Prec[r] = p
		}
	}
}

func main() {
	if len(os.Args) < 2 || (os.Args[1] != "replay" && os.Args[1] != "xform") {
		fmt.Fprintln(os.Stderr, "usage: vh-hdr replay|xform")
		os.Exit(2)
	}
	rt.ReadLines(func(_ int, raw json.RawMessage) {
		var in input
		if err := json.Unmarshal(raw, &in); err != nil {
			panic(err)
		}
		if os.Args[1] == "xform" {
			// no library call: print the transformed shape and final expectation
			x := newXform(in)
			first, last := in.Beh[0], in.Beh[len(in.Beh)-1]
			x.apply(&first)
			if len(in.Beh) > 1 {
				x.apply(&last)
			} else {
				last = first
			}
			rt.Emit(map[string]any{"n": in.N, "min": first.Min, "max": first.Max, "total": last.Total,
				"sorted": last.Sorted, "hi": last.Hi, "prec": last.Prec, "minlo": last.Minlo})
			rt.Flush()
			return
		}
		rt.Emit(map[string]any{"begin": in.N})
		rt.Flush()
		rt.Emit(replay(in))
		rt.Flush()
	})
	rt.Flush()
}

// a failure of a transformed replay carries its own key suffix: the same behaviour is also replayed as printed,
// so the keys tell whether a defect needs large magnitudes
func fail(in input, k int, key, what string) map[string]any {
	if in.Scale+in.Lift > 0 {
		key += "~large-magnitude"
		what = fmt.Sprintf("[behaviour executed at scale 2^%d, lift 2^%d] %s", in.Scale, in.Lift, what)
	}
	return map[string]any{"n": in.N, "ok": false, "step": k, "key": key, "what": what, "scale": in.Scale, "lift": in.Lift}
}

// call runs fn, turning a panic into its text
func call(fn func()) (pan string) {
	defer func() {
		if r := recover(); r != nil {
			pan = fmt.Sprint(r)
		}
	}()
	fn()
	return ""
}

type world struct {
	min, max int64
	sf       int
	h, g     *hdrhist.Histogram
	w        *hdrhist.WindowedHistogram
}

func (w *world) target() *hdrhist.Histogram {
	if w.w != nil {
		return w.w.Current
	}
	return w.h
}

func (w *world) observed() *hdrhist.Histogram {
	if w.w != nil {
		return w.w.Merge()
	}
	return w.h
}

func replay(in input) map[string]any {
	w := &world{}
	x := newXform(in)
	for k, st := range in.Beh {
		x.apply(&st)
		shape := fmt.Sprintf("New(%d,%d,%d)", w.min, w.max, w.sf)
		var err error
		var pan string
		switch st.Op {
		case "new":
			w.min, w.max, w.sf = st.Min, st.Max, st.Sf
			pan = call(func() {
				if st.Win > 0 {
					w.w = hdrhist.NewWindowed(st.Win, st.Min, st.Max, st.Sf)
				} else {
					w.h = hdrhist.New(st.Min, st.Max, st.Sf)
				}
			})
		case "rec":
			pan = call(func() { err = w.target().RecordValue(st.V) })
		case "recn":
			pan = call(func() { err = w.target().RecordValues(st.V, st.N) })
		case "corr":
			pan = call(func() { err = w.h.RecordCorrectedValue(st.V, st.N) })
		case "reset":
			pan = call(func() { w.h.Reset() })
		case "expimp":
			var c *hdrhist.Histogram
			var e1, e2 bool
			pan = call(func() { c = hdrhist.Import(w.h.Export()); e1 = c.Equals(w.h); e2 = w.h.Equals(c) })
			if pan == "" && (!e1 || !e2) {
				return fail(in, k, "hdr/export-import/not-equal", fmt.Sprintf("%s: Import(Export(h)).Equals(h)=%v, h.Equals(copy)=%v", shape, e1, e2))
			}
			if pan == "" {
				w.h = c
			}
		case "expimpd":
			// as "expimp", but the original goes on being used after the copy was taken; the copy must not notice
			var c *hdrhist.Histogram
			var e1, e2 bool
			pan = call(func() {
				c = hdrhist.Import(w.h.Export())
				e1, e2 = c.Equals(w.h), w.h.Equals(c)
				if st.N == 0 {
					w.h.Reset()
				} else {
					err = w.h.RecordValue(st.V)
				}
			})
			if pan == "" && (!e1 || !e2) {
				return fail(in, k, "hdr/export-import/not-equal", fmt.Sprintf("%s: Import(Export(h)).Equals(h)=%v, h.Equals(copy)=%v", shape, e1, e2))
			}
			if pan == "" {
				w.h = c
			}
		case "mergeempty":
			var e *hdrhist.Histogram
			var dropped int64
			var e1, e2 bool
			pan = call(func() {
				e = hdrhist.New(w.min, w.max, w.sf)
				dropped = e.Merge(w.h)
				e1, e2 = e.Equals(w.h), w.h.Equals(e)
			})
			if pan == "" && dropped != st.Dropped {
				return fail(in, k, "hdr/merge/dropped", fmt.Sprintf("%s: Merge into an empty histogram of the same shape dropped %d occurrences", shape, dropped))
			}
			if pan == "" && (!e1 || !e2) {
				return fail(in, k, "hdr/merge/not-equal", fmt.Sprintf("%s: empty.Merge(h): empty.Equals(h)=%v h.Equals(empty)=%v", shape, e1, e2))
			}
			if pan == "" {
				w.h = e
			}
		case "grec":
			pan = call(func() {
				if w.g == nil {
					w.g = hdrhist.New(w.min, w.max, w.sf)
				}
				err = w.g.RecordValue(st.V)
			})
		case "merge":
			var dropped int64
			pan = call(func() { dropped = w.h.Merge(w.g) })
			if pan == "" && dropped != st.Dropped {
				return fail(in, k, "hdr/merge/dropped", fmt.Sprintf("%s: h.Merge(g) dropped %d occurrences", shape, dropped))
			}
		case "rotate":
			pan = call(func() { w.w.Rotate() })
		default:
			panic("unknown op " + st.Op)
		}
		if pan != "" {
			return fail(in, k, "hdr/"+st.Op+"/invariant-panic", fmt.Sprintf("%s: %s(%d,%d) panicked: %s", shape, st.Op, st.V, st.N, pan))
		}
		if err != nil {
			return fail(in, k, "hdr/record/in-range-value-rejected",
				fmt.Sprintf("New(%d,%d,%d): recording %d (within [min,max]) failed: %v", w.min, w.max, w.sf, st.V, err))
		}
		if key, what := observe(w, st, k == len(in.Beh)-1); key != "" {
			return fail(in, k, key, fmt.Sprintf("New(%d,%d,%d) after %s(%d): %s; recorded %v", w.min, w.max, w.sf, st.Op, st.V, what, st.Sorted))
		}
	}
	return map[string]any{"n": in.N, "ok": true, "steps": len(in.Beh)}
}

func observe(w *world, st step, last bool) (key, what string) {
	var o *hdrhist.Histogram
	if pan := call(func() { o = w.observed() }); pan != "" {
		return "hdr/window-merge/invariant-panic", pan
	}
	var total int64
	if pan := call(func() { total = o.TotalCount() }); pan != "" {
		return "hdr/total-count/invariant-panic", pan
	}
	if total != st.Total {
		return "hdr/total-count", fmt.Sprintf("TotalCount()=%d, recorded occurrences %d", total, st.Total)
	}
	for r := int64(1); r <= st.Total; r++ {
		q := 100 * float64(r) / float64(st.Total)
		var v int64
		if pan := call(func() { v = o.ValueAtQuantile(q) }); pan != "" {
			return "hdr/quantile/invariant-panic", fmt.Sprintf("ValueAtQuantile(%v): %s", q, pan)
		}
		exact, hi, prec := st.Sorted[r-1], st.Hi[r-1], st.Prec[r-1]
		switch {
		case v < exact:
			return "hdr/quantile/below-exact", fmt.Sprintf("ValueAtQuantile(%v)=%d < order statistic %d (rank %d of %d)", q, v, exact, r, st.Total)
		case v-exact > prec:
			return "hdr/quantile/beyond-precision", fmt.Sprintf("ValueAtQuantile(%v)=%d, order statistic %d (rank %d of %d): off by %d > max(2^floor(log2 min), exact/10^sf)=%d", q, v, exact, r, st.Total, v-exact, prec)
		case v > hi:
			return "hdr/quantile/beyond-bucket-width", fmt.Sprintf("ValueAtQuantile(%v)=%d, order statistic %d (rank %d of %d): not below one bucket width (allowed up to %d)", q, v, exact, r, st.Total, hi)
		}
	}
	if st.Total > 0 {
		var mn, mx int64
		if pan := call(func() { mn, mx = o.Min(), o.Max() }); pan != "" {
			return "hdr/minmax/invariant-panic", pan
		}
		lo, top := st.Sorted[0], st.Sorted[st.Total-1]
		if mn > lo || mn < st.Minlo || lo-mn > st.Prec[0] {
			return "hdr/min/bracket", fmt.Sprintf("Min()=%d, smallest recorded %d (allowed %d..%d)", mn, lo, st.Minlo, lo)
		}
		if mx < top || mx > st.Hi[st.Total-1] || mx-top > st.Prec[st.Total-1] {
			return "hdr/max/bracket", fmt.Sprintf("Max()=%d, largest recorded %d (allowed %d..%d)", mx, top, top, st.Hi[st.Total-1])
		}
	}
	// the remaining read-only queries walk the same iterators: they must not panic and must account for every occurrence
	if o.ByteSize() < 1<<20 || last {
		var sum, cum int64
		var q100 float64
		pan := call(func() {
			for _, b := range o.Distribution() {
				sum += b.Count
			}
			cd := o.CumulativeDistribution()
			if len(cd) > 0 {
				cum, q100 = cd[len(cd)-1].Count, cd[len(cd)-1].Quantile
			}
			_, _ = o.Mean(), o.StdDev()
		})
		if pan != "" {
			return "hdr/distribution/invariant-panic", pan
		}
		if sum != st.Total {
			return "hdr/distribution/count", fmt.Sprintf("Distribution() accounts for %d occurrences, recorded %d", sum, st.Total)
		}
		if cum != st.Total || q100 != 100 {
			return "hdr/cumulative-distribution/count", fmt.Sprintf("CumulativeDistribution() ends at count %d quantile %v, recorded %d", cum, q100, st.Total)
		}
	}
	return "", ""
}
