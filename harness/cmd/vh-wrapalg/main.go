// vh-wrapalg binds spec/wrapalg/WrapAlgebra.tla to the real function types of tychoish/fun (extra check X05).
//
//	vh-wrapalg replay < terms.ndjson
//
// Every input line carries a term (a tree of Worker / Operation / Future combinators over scripted, counting
// leaf functions) and, for two calls in a row, the observation the functional specification expects: kind of
// result, identity of the error / panic value (errors.Is against the sentinel errors), future value, the order
// and the number of invocations of every leaf / condition / error future / handler, what handlers observed.
// The tree is built from the real fun.* constructors and methods, called, escaped panics are recovered, and the
// observation is compared.  Everything is sequential: no goroutines, no clocks.
package main

import (
	"context"
	"encoding/json"
	"errors"
	"fmt"
	"os"
	"sort"
	"strings"

	"github.com/tychoish/fun"
	"github.com/tychoish/fun/ers"
	"verif/harness/rt"
)

type term struct {
	Op     string   `json:"op"`
	Kids   []term   `json:"kids"`
	Script []any    `json:"script"`
	Cs     []string `json:"cs"`
	B      bool     `json:"b"`
	Excl   []string `json:"excl"`
	Fn     string   `json:"fn"`
}

type cnt struct {
	ID string `json:"id"`
	N  int    `json:"n"`
}

type seen struct {
	H     string   `json:"h"`
	IsNil bool     `json:"isnil"`
	Ids   []string `json:"ids"`
	Arg   int      `json:"arg"`
}

type view struct {
	K     string   `json:"k"`
	Ids   []string `json:"ids"`
	V     int      `json:"v"`
	Order []string `json:"order"`
	Cnt   []cnt    `json:"cnt"`
	Seen  []seen   `json:"seen"`
}

type obs struct {
	Term  term   `json:"term"`
	Calls []view `json:"calls"`
}

type input struct {
	N   int `json:"n"`
	Beh obs `json:"beh"`
}

// ------------------------------------------------------------------ vocabulary

var (
	err1  = errors.New("err1")
	err2  = errors.New("err2")
	errEx = errors.New("script exhausted")
)

var sentinels = []struct {
	name string
	err  error
}{{"e1", err1}, {"e2", err2}, {"ex", errEx}, {"ctx", context.Canceled}, {"recovered", ers.ErrRecoveredPanic}, {"invariant", ers.ErrInvariantViolation}}

func named(n string) error {
	for _, s := range sentinels {
		if s.name == n {
			return s.err
		}
	}
	panic("harness: unknown error name " + n)
}

func identity(err error) []string {
	out := []string{}
	if err == nil {
		return out
	}
	for _, s := range sentinels {
		if errors.Is(err, s.err) {
			out = append(out, s.name)
		}
	}
	sort.Strings(out)
	return out
}

type rootKey struct{}
type root struct {
	idx    int
	cancel context.CancelFunc
}

// env is the world of one term: the invocation log and what handlers saw.
type env struct {
	order []string
	count map[string]int
	seen  []seen
}

func (e *env) invoke(id string) int { e.order = append(e.order, id); e.count[id]++; return e.count[id] }

func cancelRoot(ctx context.Context) {
	if r, ok := ctx.Value(rootKey{}).(*root); ok {
		r.cancel()
	}
}

func strAt(script []any, n int, dflt string) string {
	if n <= len(script) {
		return script[n-1].(string)
	}
	return dflt
}

func at(script []string, n int, dflt string) string {
	if n <= len(script) {
		return script[n-1]
	}
	return dflt
}

func child(p string, i int) string { return fmt.Sprintf("%s.%d", p, i) }

func isWorker(op string) bool {
	switch op {
	case "wl", "w.if", "w.when", "w.recover", "w.filter", "w.without", "w.errcheck", "w.while", "w.withcancel", "o.worker", "o.recover", "h.worker":
		return true
	}
	return false
}

func isOperation(op string) bool {
	switch op {
	case "ol", "o.if", "o.when", "o.while", "o.withcancel", "w.ignore", "w.must", "w.operation", "h.operation":
		return true
	}
	return false
}

func (e *env) cond(id string, cs []string) func() bool {
	return func() bool { return at(cs, e.invoke(id), "t") == "t" }
}

func (e *env) handler(id string) fun.Handler[error] {
	return func(err error) { e.invoke(id); e.seen = append(e.seen, seen{H: id, IsNil: err == nil, Ids: identity(err)}) }
}

func (e *env) worker(t term, p string) fun.Worker {
	kp := child(p, 1)
	switch t.Op {
	case "wl":
		return func(ctx context.Context) error {
			switch o := strAt(t.Script, e.invoke(p), "halt"); o {
			case "nil":
				return nil
			case "e1", "e2":
				return named(o)
			case "p1":
				panic(err1)
			case "cancel":
				cancelRoot(ctx)
				return nil
			case "halt":
				cancelRoot(ctx)
				return errEx
			default:
				panic("harness: unknown outcome " + o)
			}
		}
	case "w.if":
		return e.worker(t.Kids[0], kp).If(t.B)
	case "w.when":
		return e.worker(t.Kids[0], kp).When(e.cond(p+"?", t.Cs))
	case "w.recover":
		return e.worker(t.Kids[0], kp).WithRecover()
	case "w.filter":
		var f ers.Filter
		switch t.Fn {
		case "drop":
			f = func(error) error { return nil }
		case "keep":
			f = func(err error) error { return err }
		case "swap":
			f = func(err error) error {
				if err != nil {
					return err2
				}
				return nil
			}
		}
		return e.worker(t.Kids[0], kp).WithErrorFilter(f)
	case "w.without":
		errs := []error{}
		for _, n := range t.Excl {
			errs = append(errs, named(n))
		}
		return e.worker(t.Kids[0], kp).WithoutErrors(errs...)
	case "w.errcheck":
		id := p + "?"
		return e.worker(t.Kids[0], kp).WithErrorCheck(func() error {
			if o := at(t.Cs, e.invoke(id), "nil"); o != "nil" {
				return named(o)
			}
			return nil
		})
	case "w.while":
		return e.worker(t.Kids[0], kp).While()
	case "w.withcancel":
		w, _ := e.worker(t.Kids[0], kp).WithCancel()
		return w
	case "o.worker":
		return e.operation(t.Kids[0], kp).Worker()
	case "o.recover":
		return e.operation(t.Kids[0], kp).WithRecover()
	case "h.worker":
		return e.hand(t.Kids[0], kp).Worker(7)
	}
	panic("harness: not a worker term: " + t.Op)
}

func (e *env) operation(t term, p string) fun.Operation {
	kp := child(p, 1)
	switch t.Op {
	case "ol":
		return func(ctx context.Context) {
			switch o := strAt(t.Script, e.invoke(p), "cancel"); o {
			case "ret":
			case "p1":
				panic(err1)
			case "cancel":
				cancelRoot(ctx)
			default:
				panic("harness: unknown outcome " + o)
			}
		}
	case "o.if":
		return e.operation(t.Kids[0], kp).If(t.B)
	case "o.when":
		return e.operation(t.Kids[0], kp).When(e.cond(p+"?", t.Cs))
	case "o.while":
		return e.operation(t.Kids[0], kp).While()
	case "o.withcancel":
		o, _ := e.operation(t.Kids[0], kp).WithCancel()
		return o
	case "w.ignore":
		return e.worker(t.Kids[0], kp).Ignore()
	case "w.must":
		return e.worker(t.Kids[0], kp).Must()
	case "w.operation":
		return e.worker(t.Kids[0], kp).Operation(e.handler(p + "!"))
	case "h.operation":
		return e.hand(t.Kids[0], kp).Operation(7)
	}
	panic("harness: not an operation term: " + t.Op)
}

func (e *env) hand(t term, p string) fun.Handler[int] {
	kp := child(p, 1)
	switch t.Op {
	case "hl":
		return func(in int) {
			n := e.invoke(p)
			e.seen = append(e.seen, seen{H: p, Ids: []string{}, Arg: in})
			if strAt(t.Script, n, "ret") == "p1" {
				panic(err1)
			}
		}
	case "h.if":
		return e.hand(t.Kids[0], kp).If(t.B)
	case "h.when":
		return e.hand(t.Kids[0], kp).When(e.cond(p+"?", t.Cs))
	case "h.skip":
		return e.hand(t.Kids[0], kp).Skip(func(v int) bool { return v%2 == 1 })
	case "h.filter":
		return e.hand(t.Kids[0], kp).Filter(func(v int) int { return 10 * v })
	case "h.join":
		return e.hand(t.Kids[0], kp).Join(e.hand(t.Kids[1], child(p, 2)))
	case "h.prehook":
		return e.hand(t.Kids[0], kp).PreHook(e.hand(t.Kids[1], child(p, 2)))
	case "h.chain":
		return e.hand(t.Kids[0], kp).Chain(e.hand(t.Kids[1], child(p, 2)), e.hand(t.Kids[2], child(p, 3)))
	case "h.recover":
		return e.hand(t.Kids[0], kp).WithRecover(e.handler(p + "!"))
	}
	panic("harness: not a handler term: " + t.Op)
}

func merge(a, b int) int { return 3*a + b }

func (e *env) future(t term, p string) fun.Future[int] {
	kp := child(p, 1)
	switch t.Op {
	case "fl":
		return fun.Futurize(func() int {
			n := e.invoke(p)
			if n > len(t.Script) {
				n = len(t.Script)
			}
			return int(t.Script[n-1].(float64))
		})
	case "f.if":
		return e.future(t.Kids[0], kp).If(t.B)
	case "f.not":
		return e.future(t.Kids[0], kp).Not(t.B)
	case "f.when":
		return e.future(t.Kids[0], kp).When(e.cond(p+"?", t.Cs))
	case "f.prehook":
		return e.future(t.Kids[0], kp).PreHook(func() { e.invoke(p + "!") })
	case "f.posthook":
		return e.future(t.Kids[0], kp).PostHook(func() { e.invoke(p + "!") })
	case "f.once":
		return e.future(t.Kids[0], kp).Once()
	case "f.translate":
		return fun.Translate(e.future(t.Kids[0], kp), func(v int) int { return 10 * v })
	case "f.reduce":
		return e.future(t.Kids[0], kp).Reduce(merge, e.future(t.Kids[1], child(p, 2)))
	case "f.join":
		return e.future(t.Kids[0], kp).Join(merge, e.future(t.Kids[1], child(p, 2)), e.future(t.Kids[2], child(p, 3)))
	}
	panic("harness: not a future term: " + t.Op)
}

// ------------------------------------------------------------------ one call

type result struct {
	k   string
	ids []string
	v   int
}

// harnessPanic marks panics raised by the harness itself: they must never be taken for library behaviour.
func isHarnessPanic(r any) bool {
	s, ok := r.(string)
	return ok && strings.HasPrefix(s, "harness:")
}

func protect(fn func() result) (res result) {
	defer func() {
		if r := recover(); r != nil {
			if isHarnessPanic(r) {
				panic(r)
			}
			res = result{k: "panic", ids: []string{}}
			if err, ok := r.(error); ok {
				res.ids = identity(err)
			}
		}
	}()
	return fn()
}

func errResult(err error) result {
	if err == nil {
		return result{k: "nil", ids: []string{}}
	}
	return result{k: "err", ids: identity(err)}
}

// caller builds the composed function once and returns the function that performs one call of it.
func (e *env) caller(t term) func(ctx context.Context) result {
	ret := result{k: "ret", ids: []string{}}
	switch {
	case t.Op == "w.check":
		w := e.worker(t.Kids[0], "r.1")
		return func(ctx context.Context) result {
			if w.Check(ctx) {
				return result{k: "true", ids: []string{}}
			}
			return result{k: "false", ids: []string{}}
		}
	case t.Op == "w.observe":
		w := e.worker(t.Kids[0], "r.1")
		h := e.handler("r!")
		return func(ctx context.Context) result { w.Observe(ctx, h); return ret }
	case t.Op == "w.wait":
		w := e.worker(t.Kids[0], "r.1")
		return func(context.Context) result { return errResult(w.Wait()) }
	case t.Op == "o.wait":
		o := e.operation(t.Kids[0], "r.1")
		return func(context.Context) result { o.Wait(); return ret }
	case t.Op == "f.slice":
		f := e.future(t.Kids[0], "r.1").Slice()
		return func(context.Context) result {
			if s := f(); len(s) == 1 {
				return result{k: "val", ids: []string{}, v: s[0]}
			}
			return result{k: "badslice", ids: []string{}}
		}
	case t.Op == "f.ignore":
		f := e.future(t.Kids[0], "r.1").Ignore()
		return func(context.Context) result { f(); return ret }
	case t.Op == "f.producer":
		pf := e.future(t.Kids[0], "r.1").Producer()
		return func(ctx context.Context) result {
			v, err := pf.Resolve(ctx)
			if err != nil {
				return errResult(err)
			}
			return result{k: "val", ids: []string{}, v: v}
		}
	case t.Op == "h.recoverpanic":
		h := e.hand(t.Kids[0], "r.1")
		return func(ctx context.Context) result { return errResult(h.RecoverPanic(ctx.Value(rootKey{}).(*root).idx)) }
	case strings.HasPrefix(t.Op, "h") && t.Op != "h.worker" && t.Op != "h.operation":
		h := e.hand(t, "r")
		return func(ctx context.Context) result { h.Handle(ctx.Value(rootKey{}).(*root).idx); return ret }
	case isWorker(t.Op):
		w := e.worker(t, "r")
		return func(ctx context.Context) result { return errResult(w.Run(ctx)) }
	case isOperation(t.Op):
		o := e.operation(t, "r")
		return func(ctx context.Context) result { o.Run(ctx); return ret }
	default:
		f := e.future(t, "r")
		return func(context.Context) result { return result{k: "val", ids: []string{}, v: f.Resolve()} }
	}
}

func typeOf(op string) string {
	switch {
	case op == "wl":
		return "worker/leaf"
	case op == "ol":
		return "operation/leaf"
	case op == "fl":
		return "future/leaf"
	case strings.HasPrefix(op, "w."):
		return "worker/" + op[2:]
	case strings.HasPrefix(op, "o."):
		return "operation/" + op[2:]
	case op == "hl":
		return "handler/leaf"
	case strings.HasPrefix(op, "h."):
		return "handler/" + op[2:]
	case strings.HasPrefix(op, "f."):
		return "future/" + op[2:]
	}
	return "unknown/" + op
}

func sameSet(a, b []string) bool {
	a, b = append([]string{}, a...), append([]string{}, b...)
	sort.Strings(a)
	sort.Strings(b)
	return strings.Join(a, ",") == strings.Join(b, ",")
}

func replayTerm(in input) map[string]any {
	t := in.Beh.Term
	e := &env{count: map[string]int{}}
	call := e.caller(t)
	fail := func(i int, aspect, what string) map[string]any {
		return map[string]any{"n": in.N, "ok": false, "key": "wrapalg/" + typeOf(t.Op) + "/" + aspect, "call": i, "aspect": aspect,
			"what": fmt.Sprintf("call %d: %s", i+1, what)}
	}
	for i, want := range in.Beh.Calls {
		base, cancel := context.WithCancel(context.Background())
		ctx := context.WithValue(base, rootKey{}, &root{idx: i + 1, cancel: cancel})
		got := protect(func() result { return call(ctx) })
		defer cancel() // not before the last call: a WithCancel node stays bound to the context of the first call
		if got.k != want.K {
			return fail(i, "result", fmt.Sprintf("result %s %v, the specification says %s %v", got.k, got.ids, want.K, want.Ids))
		}
		if !sameSet(got.ids, want.Ids) {
			return fail(i, "error-identity", fmt.Sprintf("%s is %v, the specification says %v", got.k, got.ids, want.Ids))
		}
		if got.k == "val" && got.v != want.V {
			return fail(i, "value", fmt.Sprintf("value %d, the specification says %d", got.v, want.V))
		}
		if len(e.seen) != len(want.Seen) {
			return fail(i, "observed", fmt.Sprintf("handlers observed %v, the specification says %v", e.seen, want.Seen))
		}
		for j := range e.seen {
			g, w := e.seen[j], want.Seen[j]
			if g.H != w.H || g.IsNil != w.IsNil || g.Arg != w.Arg || !sameSet(g.Ids, w.Ids) {
				return fail(i, "observed", fmt.Sprintf("handlers observed %v, the specification says %v", e.seen, want.Seen))
			}
		}
		seenIDs := map[string]bool{}
		for _, c := range want.Cnt {
			seenIDs[c.ID] = true
			if e.count[c.ID] != c.N {
				return fail(i, "count", fmt.Sprintf("%s invoked %d times so far, the specification says %d (order %v)", c.ID, e.count[c.ID], c.N, e.order))
			}
		}
		for id, n := range e.count {
			if !seenIDs[id] {
				return fail(i, "count", fmt.Sprintf("%s invoked %d times so far, the specification says never (order %v)", id, n, e.order))
			}
		}
		if strings.Join(e.order, " ") != strings.Join(want.Order, " ") {
			return fail(i, "order", fmt.Sprintf("invocation order %v, the specification says %v", e.order, want.Order))
		}
	}
	return map[string]any{"n": in.N, "ok": true}
}

func main() {
	if len(os.Args) < 2 || os.Args[1] != "replay" {
		fmt.Fprintln(os.Stderr, "usage: vh-wrapalg replay")
		os.Exit(2)
	}
	rt.ReadLines(func(_ int, raw json.RawMessage) {
		var in input
		if err := json.Unmarshal(raw, &in); err != nil {
			panic(err)
		}
		rt.Emit(map[string]any{"begin": in.N})
		rt.Flush()
		rt.Emit(replayTerm(in))
		rt.Flush()
	})
	rt.Flush()
}
