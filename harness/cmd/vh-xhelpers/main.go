// vh-xhelpers binds spec/xhelpers/XHelpers.tla (extra check X06) to ers/filter.go and intish/math.go:
//
//	vh-xhelpers replay < cases.ndjson
//	vh-xhelpers replay erc < behaviours.ndjson     ErcStep behaviours on a real erc.Collector (erc.go)
//
// Every line {"n":i,"beh":{case}} is one case printed by TLC (family "int", "millis", "filter", "extract",
// "removeok") with the expected results; the harness evaluates the real functions on the same arguments and
// compares.  It holds no expectation of its own.  Keys: xhelpers/<family>/<op>/<aspect>, aspect in
// return-value, identity, is-relation, unexpected-panic, missing-panic.
package main

import (
	"context"
	"encoding/json"
	"errors"
	"fmt"
	"os"

	"github.com/tychoish/fun"
	"github.com/tychoish/fun/erc"
	"github.com/tychoish/fun/ers"
	"github.com/tychoish/fun/intish"
	"verif/harness/rt"
)

type rnd struct {
	Pan int `json:"pan"`
	V   int `json:"v"`
}

type term struct {
	K string `json:"k"`
	I int    `json:"i,omitempty"`
	X *term  `json:"x,omitempty"`
	L *term  `json:"l,omitempty"`
	R *term  `json:"r,omitempty"`
}

type fres struct {
	K    string   `json:"k"`
	Path []string `json:"path"`
	Is   []int    `json:"is"`
}

type fexp struct {
	F  string `json:"f"`
	Xs []int  `json:"xs"`
	R  fres   `json:"r"`
}

type kase struct {
	Fam string `json:"fam"`
	// int
	A         int    `json:"a"`
	B         int    `json:"b"`
	Abs       int    `json:"abs"`
	Min       int    `json:"min"`
	Max       int    `json:"max"`
	Range     [2]int `json:"range"`
	Bounds    [2]int `json:"bounds"`
	AbsBounds [2]int `json:"absbounds"`
	AbsMax    int    `json:"absmax"`
	AbsMin    int    `json:"absmin"`
	Diff      int    `json:"diff"`
	Away      rnd    `json:"away"`
	Toward    rnd    `json:"toward"`
	Smallest  rnd    `json:"smallest"`
	Largest   rnd    `json:"largest"`
	// millis
	Eighths int `json:"eighths"`
	Millis  int `json:"millis"`
	// filter
	T   *term  `json:"t"`
	Exp []fexp `json:"exp"`
	// extract / removeok
	Items json.RawMessage `json:"items"`
	Rest  []string        `json:"rest"`
	Errs  []int           `json:"errs"`
	Out   []int           `json:"out"`
	After []int           `json:"after"`
}

type input struct {
	N   int  `json:"n"`
	Beh kase `json:"beh"`
}

type result = map[string]any

func main() {
	if len(os.Args) < 2 || os.Args[1] != "replay" {
		fmt.Fprintln(os.Stderr, "usage: vh-xhelpers replay")
		os.Exit(2)
	}
	if len(os.Args) > 2 && os.Args[2] == "erc" {
		rt.ReadLines(func(_ int, raw json.RawMessage) {
			var in ercInput
			if err := json.Unmarshal(raw, &in); err != nil {
				panic(err)
			}
			rt.Emit(map[string]any{"begin": in.N})
			rt.Flush()
			rt.Emit(replayErc(in))
			rt.Flush()
		})
		rt.Flush()
		return
	}
	rt.ReadLines(func(_ int, raw json.RawMessage) {
		var in input
		if err := json.Unmarshal(raw, &in); err != nil {
			panic(err)
		}
		rt.Emit(map[string]any{"begin": in.N})
		rt.Flush()
		var r result
		switch in.Beh.Fam {
		case "int":
			r = replayInt(in)
		case "millis":
			r = replayMillis(in)
		case "filter":
			r = replayFilter(in)
		case "extract":
			r = replayExtract(in)
		case "removeok":
			r = replayRemoveOk(in)
		default:
			fmt.Fprintln(os.Stderr, "unknown family", in.Beh.Fam)
			os.Exit(2)
		}
		rt.Emit(r)
		rt.Flush()
	})
	rt.Flush()
}

func fail(in input, fam, op, aspect, what string) result {
	return result{"n": in.N, "ok": false, "key": "xhelpers/" + fam + "/" + op + "/" + aspect, "what": op + ": " + what}
}
func okres(in input, checks int) result { return result{"n": in.N, "ok": true, "checks": checks} }

func call(fn func()) (pan string) {
	defer func() {
		if r := recover(); r != nil {
			pan = fmt.Sprint(r)
			if pan == "" {
				pan = "panic"
			}
		}
	}()
	fn()
	return ""
}

// ------------------------------------------------------------------ intish

type signed interface{ ~int | ~int8 | ~int64 }

// intChecks evaluates every function of intish/math.go at type T and reports the first difference
func intChecks[T signed](in input, typ string) (result, int) {
	c := in.Beh
	a, b := T(c.A), T(c.B)
	n := 0
	one := func(op string, exp int, fn func() T) result {
		n++
		var got T
		if p := call(func() { got = fn() }); p != "" {
			return fail(in, "intish", op, "unexpected-panic", fmt.Sprintf("%s(%d, %d) at %s panics (%s), expected %d", op, c.A, c.B, typ, p, exp))
		}
		if int(got) != exp {
			return fail(in, "intish", op, "return-value", fmt.Sprintf("%s(%d, %d) at %s = %d, expected %d", op, c.A, c.B, typ, int(got), exp))
		}
		return nil
	}
	two := func(op string, exp [2]int, fn func() (T, T)) result {
		n++
		var g1, g2 T
		if p := call(func() { g1, g2 = fn() }); p != "" {
			return fail(in, "intish", op, "unexpected-panic", fmt.Sprintf("%s(%d, %d) at %s panics (%s)", op, c.A, c.B, typ, p))
		}
		if int(g1) != exp[0] || int(g2) != exp[1] {
			return fail(in, "intish", op, "return-value", fmt.Sprintf("%s(%d, %d) at %s = (%d, %d), expected (%d, %d)", op, c.A, c.B, typ, int(g1), int(g2), exp[0], exp[1]))
		}
		return nil
	}
	round := func(op string, exp rnd, fn func() T) result {
		n++
		var got T
		p := call(func() { got = fn() })
		switch {
		case p != "" && exp.Pan == 0:
			return fail(in, "intish", op, "unexpected-panic", fmt.Sprintf("%s(%d, %d) at %s panics (%s), expected %d", op, c.A, c.B, typ, p, exp.V))
		case p == "" && exp.Pan == 1:
			return fail(in, "intish", op, "missing-panic", fmt.Sprintf("%s(%d, %d) at %s = %d, expected a panic", op, c.A, c.B, typ, int(got)))
		case p == "" && int(got) != exp.V:
			return fail(in, "intish", op, "return-value", fmt.Sprintf("%s(%d, %d) at %s = %d, expected %d", op, c.A, c.B, typ, int(got), exp.V))
		}
		return nil
	}
	for _, r := range []func() result{
		func() result { return one("abs", c.Abs, func() T { return intish.Abs(a) }) },
		func() result { return one("min", c.Min, func() T { return intish.Min(a, b) }) },
		func() result { return one("max", c.Max, func() T { return intish.Max(a, b) }) },
		func() result { return two("range", c.Range, func() (T, T) { return intish.Range(a, b) }) },
		func() result { return two("bounds", c.Bounds, func() (T, T) { return intish.Bounds(a, b) }) },
		func() result { return two("absbounds", c.AbsBounds, func() (T, T) { return intish.AbsBounds(a, b) }) },
		func() result { return one("absmax", c.AbsMax, func() T { return intish.AbsMax(a, b) }) },
		func() result { return one("absmin", c.AbsMin, func() T { return intish.AbsMin(a, b) }) },
		func() result { return one("diff", c.Diff, func() T { return intish.Diff(a, b) }) },
		func() result {
			return round("away", c.Away, func() T { return intish.RoundToMultipleAwayFromZero(a, b) })
		},
		func() result {
			return round("toward", c.Toward, func() T { return intish.RoundToMultipleTowardZero(a, b) })
		},
		func() result {
			return round("smallest", c.Smallest, func() T { return intish.RoundToSmallestMultiple(a, b) })
		},
		func() result {
			return round("largest", c.Largest, func() T { return intish.RoundToLargestMultiple(a, b) })
		},
	} {
		if res := r(); res != nil {
			return res, n
		}
	}
	return nil, n
}

func replayInt(in input) result {
	r, n := intChecks[int](in, "int")
	if r != nil {
		return r
	}
	r, m := intChecks[int64](in, "int64")
	if r != nil {
		return r
	}
	n += m
	fits := func(x int) bool { return x >= -128 && x <= 127 }
	c := in.Beh
	if fits(c.A) && fits(c.B) && fits(c.Away.V) && fits(c.A-c.B) && fits(c.AbsMax) {
		r, m = intChecks[int8](in, "int8")
		if r != nil {
			return r
		}
		n += m
	}
	return okres(in, n)
}

func replayMillis(in input) result {
	c := in.Beh
	f := float64(c.Eighths) / 8 // exact
	var got int
	if p := call(func() { got = intish.Millis[int](f) }); p != "" {
		return fail(in, "intish", "millis", "unexpected-panic", fmt.Sprintf("Millis(%v) panics: %s", f, p))
	}
	if got != c.Millis {
		return fail(in, "intish", "millis", "return-value", fmt.Sprintf("Millis(%v) = %d, expected %d", f, got, c.Millis))
	}
	if back := intish.FloatMillis(c.Millis); back != f {
		return fail(in, "intish", "floatmillis", "return-value", fmt.Sprintf("FloatMillis(%d) = %v, expected %v", c.Millis, back, f))
	}
	return okres(in, 2)
}

// ------------------------------------------------------------------ error terms and filters

var leaves = map[int]error{}

func leaf(i int) error {
	if e, ok := leaves[i]; ok {
		return e
	}
	var e error
	if i%2 == 1 {
		e = ers.Error(fmt.Sprintf("sentinel-%d", i)) // constant-style sentinel
	} else {
		e = errors.New(fmt.Sprintf("sentinel-%d", i)) // pointer sentinel
	}
	leaves[i] = e
	return e
}

// node is a built error with the errors of its sub-terms, addressable by the paths TLC prints
type node struct {
	err     error
	x, l, r *node
}

func build(t *term) *node {
	switch t.K {
	case "nil":
		return &node{}
	case "leaf":
		return &node{err: leaf(t.I)}
	case "wrap":
		x := build(t.X)
		return &node{err: fmt.Errorf("w: %w", x.err), x: x}
	case "join":
		l, r := build(t.L), build(t.R)
		return &node{err: errors.Join(l.err, r.err), l: l, r: r}
	case "ejoin":
		l, r := build(t.L), build(t.R)
		return &node{err: ers.Join(l.err, r.err), l: l, r: r}
	}
	panic("harness: unknown term kind " + t.K)
}

func (n *node) at(path []string) *node {
	for _, p := range path {
		switch p {
		case "x":
			n = n.x
		case "l":
			n = n.l
		default:
			n = n.r
		}
	}
	return n
}

func same(a, b error) (eq bool) {
	defer func() {
		if recover() != nil { // uncomparable dynamic types
			eq = false
		}
	}()
	return a == b
}

func errsOf(xs []int) []error {
	out := make([]error, 0, len(xs))
	for _, i := range xs {
		out = append(out, leaf(i))
	}
	return out
}

func describe(e error) string {
	if e == nil {
		return "nil"
	}
	return fmt.Sprintf("%T(%q)", e, e.Error())
}

func replayFilter(in input) result {
	c := in.Beh
	root := build(c.T)
	tj, _ := json.Marshal(c.T)
	nleaf := 0
	for _, e := range c.Exp {
		for _, i := range append(append([]int{}, e.Xs...), e.R.Is...) {
			if i > nleaf {
				nleaf = i
			}
		}
	}
	if nleaf < 3 {
		nleaf = 3
	}
	checks := 0
	for _, e := range c.Exp {
		var f ers.Filter
		out := error(nil)
		switch e.F {
		case "noop":
			f = ers.FilterNoop()
		case "exclude":
			f = ers.FilterExclude(errsOf(e.Xs)...)
		case "check":
			xs := errsOf(e.Xs)
			f = ers.FilterCheck(func(err error) bool { return err == nil || ers.Is(err, xs...) })
		case "checkalways":
			f = ers.FilterCheck(func(error) bool { return true })
		case "convert":
			out = leaf(e.Xs[0])
			f = ers.FilterConvert(out)
		case "convertnil":
			f = ers.FilterConvert(nil)
		case "toroot":
			f = ers.FilterToRoot()
		default:
			panic("harness: unknown filter " + e.F)
		}
		op := e.F
		name := fmt.Sprintf("%s%v on %s", e.F, e.Xs, tj)
		var got, got2 error
		if p := call(func() { got = f(root.err); got2 = f.Run(root.err) }); p != "" {
			return fail(in, "filter", op, "unexpected-panic", name+" panics: "+p)
		}
		checks++
		if !same(got, got2) {
			return fail(in, "filter", op, "identity", name+": f(err) and f.Run(err) differ")
		}
		switch e.R.K {
		case "nil":
			if got != nil {
				return fail(in, "filter", op, "return-value", name+" = "+describe(got)+", expected nil")
			}
			continue
		case "in":
			want := root.at(e.R.Path).err
			if got == nil {
				return fail(in, "filter", op, "return-value", name+" = nil, expected the input's error at path "+fmt.Sprint(e.R.Path))
			}
			if !same(got, want) {
				return fail(in, "filter", op, "identity", fmt.Sprintf("%s = %s, expected the input's error at path %v: %s", name, describe(got), e.R.Path, describe(want)))
			}
		case "out":
			if !same(got, out) {
				return fail(in, "filter", op, "identity", name+" = "+describe(got)+", expected the output error "+describe(out))
			}
		}
		// errors.Is relation of the result with every sentinel
		exp := map[int]bool{}
		for _, i := range e.R.Is {
			exp[i] = true
		}
		for i := 1; i <= nleaf; i++ {
			checks++
			if errors.Is(got, leaf(i)) != exp[i] {
				return fail(in, "filter", op, "is-relation", fmt.Sprintf("%s = %s: errors.Is(result, sentinel-%d) = %v, expected %v", name, describe(got), i, !exp[i], exp[i]))
			}
		}
	}
	return okres(in, checks)
}

// ------------------------------------------------------------------ ExtractErrors / RemoveOk

func replayExtract(in input) result {
	var kinds []string
	if err := json.Unmarshal(in.Beh.Items, &kinds); err != nil {
		panic(err)
	}
	wrapped := fmt.Errorf("w: %w", leaf(2))
	errOf := map[int]error{1: leaf(1), 2: wrapped, 3: leaf(3)}
	calls := 0
	args := make([]any, 0, len(kinds))
	for _, k := range kinds {
		switch k {
		case "nil":
			args = append(args, nil)
		case "err":
			args = append(args, errOf[1])
		case "wrap":
			args = append(args, errOf[2])
		case "fnerr":
			args = append(args, func() error { calls++; return errOf[3] })
		case "fnnil":
			args = append(args, func() error { calls++; return nil })
		case "empty":
			args = append(args, "")
		case "str":
			args = append(args, "x")
		case "int":
			args = append(args, 7)
		default:
			panic("harness: unknown item kind " + k)
		}
	}
	var rest []any
	var errs []error
	name := fmt.Sprintf("ExtractErrors(%v)", kinds)
	if p := call(func() { rest, errs = ers.ExtractErrors(args) }); p != "" {
		return fail(in, "extract", "extracterrors", "unexpected-panic", name+" panics: "+p)
	}
	gotRest := make([]string, 0, len(rest))
	for _, r := range rest {
		switch v := r.(type) {
		case string:
			if v == "x" {
				gotRest = append(gotRest, "str")
			} else if v == "" {
				gotRest = append(gotRest, "empty")
			} else {
				gotRest = append(gotRest, "other:"+v)
			}
		case int:
			gotRest = append(gotRest, "int")
		case nil:
			gotRest = append(gotRest, "nil")
		case func() error:
			gotRest = append(gotRest, "fn")
		default:
			gotRest = append(gotRest, fmt.Sprintf("%T", r))
		}
	}
	if fmt.Sprint(gotRest) != fmt.Sprint(append([]string{}, in.Beh.Rest...)) {
		return fail(in, "extract", "extracterrors", "return-value", fmt.Sprintf("%s rest = %v, expected %v", name, gotRest, in.Beh.Rest))
	}
	if len(errs) != len(in.Beh.Errs) {
		return fail(in, "extract", "extracterrors", "return-value", fmt.Sprintf("%s yields %d errors, expected %d", name, len(errs), len(in.Beh.Errs)))
	}
	for i, e := range in.Beh.Errs {
		if !same(errs[i], errOf[e]) {
			return fail(in, "extract", "extracterrors", "identity", fmt.Sprintf("%s errs[%d] = %s, expected %s", name, i, describe(errs[i]), describe(errOf[e])))
		}
	}
	return okres(in, 2)
}

func replayRemoveOk(in input) result {
	var items []int
	if err := json.Unmarshal(in.Beh.Items, &items); err != nil {
		panic(err)
	}
	arg := make([]error, 0, len(items))
	for _, i := range items {
		if i == 0 {
			arg = append(arg, nil)
		} else {
			arg = append(arg, leaf(i))
		}
	}
	var out []error
	name := fmt.Sprintf("RemoveOk(%v)", items)
	if p := call(func() { out = ers.RemoveOk(arg) }); p != "" {
		return fail(in, "removeok", "removeok", "unexpected-panic", name+" panics: "+p)
	}
	if len(out) != len(in.Beh.Out) {
		return fail(in, "removeok", "removeok", "return-value", fmt.Sprintf("%s has %d elements, expected %d", name, len(out), len(in.Beh.Out)))
	}
	for i, e := range in.Beh.Out {
		if !same(out[i], leaf(e)) {
			return fail(in, "removeok", "removeok", "identity", fmt.Sprintf("%s [%d] = %s, expected sentinel-%d", name, i, describe(out[i]), e))
		}
	}
	// the argument slice after the call, as the spec prints it
	if len(in.Beh.After) != len(arg) {
		return fail(in, "removeok", "removeok", "argument-modified", name+" changed the length of its argument")
	}
	for i, v := range in.Beh.After {
		if (v == 0) != (arg[i] == nil) || (v != 0 && !same(arg[i], leaf(v))) {
			return fail(in, "removeok", "removeok", "argument-modified", name+" changed its argument")
		}
	}
	return okres(in, 2)
}

// ------------------------------------------------------------------ erc helpers (ErcStep.tla)

type ercStep struct {
	Op  string `json:"op"`
	C   int    `json:"c"`
	E   int    `json:"e"`
	P   int    `json:"p"`
	Es  []int  `json:"es"`
	Ret int    `json:"ret"`
	Len int    `json:"len"`
	Is  []int  `json:"is"`
}

type ercInput struct {
	N   int       `json:"n"`
	Beh []ercStep `json:"beh"`
}

// ercErr maps a model error id to the real error / the sentinel it must satisfy errors.Is with
func ercErr(id int) error {
	switch id {
	case 0:
		return nil
	case 1, 2:
		return leaf(id)
	case 3:
		return ers.Error("msg-3")
	case 4:
		return ers.Error("msg-4")
	case 9:
		return fun.ErrRecoveredPanic
	}
	panic("harness: unknown error id")
}

func payload(p int) any {
	switch p {
	case 1:
		return leaf(1)
	case 3:
		return "msg-3"
	}
	return nil
}

func replayErc(in ercInput) result {
	ctx := context.Background()
	ec := &erc.Collector{}
	bad := func(k int, op, aspect, what string) result {
		return result{"n": in.N, "ok": false, "step": k, "key": "xhelpers/erc/" + op + "/" + aspect,
			"what": fmt.Sprintf("step %d %s: %s", k, op, what)}
	}
	for k, s := range in.Beh {
		ret := 0
		boom := func() {
			if v := payload(s.P); v != nil {
				panic(v)
			}
		}
		pan := call(func() {
			switch s.Op {
			case "new":
			case "when":
				erc.When(ec, s.C == 1, leaf(s.E))
			case "whens":
				erc.When(ec, s.C == 1, "msg-4")
			case "whenf":
				erc.Whenf(ec, s.C == 1, "f: %w", leaf(s.E))
			case "check":
				erc.Check(ec, func() error { return ercErr(s.E) })
			case "collect":
				ret = erc.Collect[int](ec)(7, ercErr(s.E))
			case "recover":
				func() { defer erc.Recover(ec); boom() }()
			case "recovercall":
				erc.WithRecoverCall(ec, boom)
			case "recoverdo":
				ret = erc.WithRecoverDo(ec, func() int { boom(); return 42 })
			case "recoverhook":
				func() { defer erc.RecoverHook(ec, func() { ret++ }); boom() }()
			case "stream":
				ch := make(chan error, len(s.Es)+1)
				for _, e := range s.Es {
					ch <- ercErr(e)
				}
				close(ch)
				erc.Stream(ctx, ec, ch)
			case "consume":
				es := make([]error, 0, len(s.Es))
				for _, e := range s.Es {
					es = append(es, ercErr(e))
				}
				erc.Consume(ctx, ec, fun.SliceIterator(es))
			default:
				panic("harness: unknown op " + s.Op)
			}
		})
		if pan != "" {
			return bad(k, s.Op, "unexpected-panic", "panics: "+pan)
		}
		if ret != s.Ret {
			return bad(k, s.Op, "return-value", fmt.Sprintf("returned %d, expected %d", ret, s.Ret))
		}
		if n := ec.Len(); n != s.Len {
			return bad(k, s.Op, "len", fmt.Sprintf("Collector.Len() = %d, expected %d", n, s.Len))
		}
		res := ec.Resolve()
		if (res == nil) != (s.Len == 0) || ec.HasErrors() != (s.Len != 0) {
			return bad(k, s.Op, "resolve", fmt.Sprintf("Resolve() = %s, HasErrors() = %v with %d expected errors", describe(res), ec.HasErrors(), s.Len))
		}
		exp := map[int]bool{}
		for _, i := range s.Is {
			exp[i] = true
		}
		for _, id := range []int{1, 2, 3, 4, 9} {
			if errors.Is(res, ercErr(id)) != exp[id] {
				return bad(k, s.Op, "is-relation", fmt.Sprintf("errors.Is(Resolve(), id %d) = %v, expected %v", id, !exp[id], exp[id]))
			}
		}
	}
	return result{"n": in.N, "ok": true}
}
