package main

import (
	"encoding/json"
	"runtime"
	"sort"
	"sync"
	"sync/atomic"
	"time"

	"verif/harness/rt"
)

// Guard probes (schedule independent).  The handler runs at the top of every function of the
// library whose contract is "the caller holds the lock" and receives the mutex that is supposed
// to be held.  If TryLock succeeds nobody holds it - in particular not the accessor: the lock
// discipline is demonstrably broken on this path, whatever the schedule.  (A failed TryLock
// proves nothing: some other goroutine may hold the mutex.)
type probeRec struct {
	mu   sync.Mutex
	seen map[string]*[3]int // point -> {held, unheld, no mutex known}
}

var curProbe atomic.Pointer[probeRec]

func probeHandler(point string, mu *sync.Mutex) {
	rec := curProbe.Load()
	if rec == nil {
		return
	}
	k := 2
	if mu != nil {
		if mu.TryLock() {
			mu.Unlock()
			k = 1
		} else {
			k = 0
		}
	}
	rec.mu.Lock()
	c := rec.seen[point]
	if c == nil {
		c = &[3]int{}
		rec.seen[point] = c
	}
	c[k]++
	rec.mu.Unlock()
}

func (r *probeRec) events() []map[string]any {
	r.mu.Lock()
	defer r.mu.Unlock()
	pts := make([]string, 0, len(r.seen))
	for p := range r.seen {
		pts = append(pts, p)
	}
	sort.Strings(pts)
	out := []map[string]any{}
	for _, p := range pts {
		c := r.seen[p]
		out = append(out, map[string]any{"point": p, "held": c[0], "unheld": c[1], "nomutex": c[2]})
	}
	return out
}

// probeOne calls method m once on a fresh object in the given class; nothing else uses the object.
func probeOne(j job) map[string]any {
	f := lookup(j.Comp, j.M)
	base := runtime.NumGoroutine()
	w := newWorld(j.Comp, j.Class)
	rec := &probeRec{seen: map[string]*[3]int{}}
	curProbe.Store(rec)
	c := &call{ctx: w.ctx, tid: 0, i: 1}
	if !j.Block {
		safe(func() { f(w, c) })
	} else {
		// a method that may block runs on a goroutine of its own with a live context (a cancelled one
		// would make e.g. Iterator.ReadOne return before it reaches the object); if it has not returned
		// after a bounded number of yields the context is cancelled, which must release it.
		done := make(chan struct{})
		go func() { defer close(done); safe(func() { f(w, c) }) }()
		// wait until nothing runs any more: the call has returned or is parked (a budget that runs out
		// only costs coverage: the call is then cancelled earlier than necessary)
		_, _ = rt.QuiesceBudget(3000)
		select {
		case <-done:
		default:
			w.cancel()
			select {
			case <-done:
			case <-time.After(20 * time.Second):
				fail("probe: " + j.M + " did not return after its context was cancelled")
			}
		}
	}
	// effects that the method only triggers (the Broker's goroutines) have happened once everything is
	// parked again; this affects coverage only, never a verdict.
	_, _ = rt.QuiesceBudget(3000)
	w.finish()
	settle(base)
	curProbe.Store(nil)
	return map[string]any{"end": j.N, "probes": rec.events()}
}

func probeMain() {
	if !guardHooksCompiled {
		rt.Emit(map[string]any{"probes": "unavailable"})
		return
	}
	guardInstall(probeHandler)
	rt.Emit(map[string]any{"probes": "available"})
	rt.ReadLines(func(_ int, raw json.RawMessage) {
		var j job
		if err := json.Unmarshal(raw, &j); err != nil {
			fail(err.Error())
		}
		rt.Emit(map[string]any{"begin": j.N})
		rt.Flush()
		rt.Emit(probeOne(j))
		rt.Flush()
	})
}
