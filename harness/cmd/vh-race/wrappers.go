package main

import (
	"context"
	"errors"
	"sync"
	"sync/atomic"

	"github.com/tychoish/fun"
	"github.com/tychoish/fun/adt"
)

// Function wrappers: one component per function type and wrapper kind.  The wrapped function
// touches wrapObj.body, a plain int, exactly where the wrapper's contract is that the wrapped
// function runs under its mutex / once; for Operation.Limit ("operations can run concurrently",
// operation.go:177-179) the body uses an atomic.
type wrapObj struct {
	body  int
	abody atomic.Int64
	mode  string // how the wrapped function ends: "" (succeeds), err, ctxerr / ctxwait, panic (state classes of LockTable!FailClasses)
	call  func(ctx context.Context, i int)
}

var errWrapped = errors.New("wrapped function failed")

// end is the tail of every wrapped function: it fails the way the state class says.  In the classes
// ctxerr / ctxwait the function stays in flight until its context is cancelled (and reports that).
func (o *wrapObj) end(ctx context.Context) error {
	switch o.mode {
	case "err":
		return errWrapped
	case "ctxerr", "ctxwait":
		if ctx != nil {
			<-ctx.Done()
			return ctx.Err()
		}
	case "panic":
		panic("wrapped function panics")
	}
	return nil
}

func wr(w *world) *wrapObj { return w.obj.(*wrapObj) }

const limitN = 3

func init() {
	type mkfn func(o *wrapObj, kind string) func(ctx context.Context, i int)
	// for every function type: build the wrapped function of the given kind and return how to call it
	fns := map[string]mkfn{
		"Operation": func(o *wrapObj, kind string) func(context.Context, int) {
			f := fun.Operation(func(ctx context.Context) { o.body++; _ = o.end(ctx) })
			switch kind {
			case "Lock":
				f = f.Lock()
			case "WithLock":
				f = f.WithLock(&sync.Mutex{})
			case "Once":
				f = f.Once()
			case "Limit":
				f = fun.Operation(func(ctx context.Context) { o.abody.Add(1); _ = o.end(ctx) }).Limit(limitN)
			}
			return func(ctx context.Context, _ int) { f(ctx) }
		},
		"Worker": func(o *wrapObj, kind string) func(context.Context, int) {
			f := fun.Worker(func(ctx context.Context) error { o.body++; return o.end(ctx) })
			switch kind {
			case "Lock":
				f = f.Lock()
			case "WithLock":
				f = f.WithLock(&sync.Mutex{})
			case "Once":
				f = f.Once()
			case "Limit":
				f = f.Limit(limitN)
			}
			return func(ctx context.Context, _ int) { _ = f(ctx) }
		},
		"Processor": func(o *wrapObj, kind string) func(context.Context, int) {
			f := fun.Processor[int](func(ctx context.Context, v int) error { o.body += v; return o.end(ctx) })
			switch kind {
			case "Lock":
				f = f.Lock()
			case "WithLock":
				f = f.WithLock(&sync.Mutex{})
			case "Once":
				f = f.Once()
			case "Limit":
				f = f.Limit(limitN)
			}
			return func(ctx context.Context, i int) { _ = f(ctx, i) }
		},
		"Producer": func(o *wrapObj, kind string) func(context.Context, int) {
			f := fun.Producer[int](func(ctx context.Context) (int, error) { o.body++; v := o.body; return v, o.end(ctx) })
			switch kind {
			case "Lock":
				f = f.Lock()
			case "WithLock":
				f = f.WithLock(&sync.Mutex{})
			case "Once":
				f = f.Once()
			case "Limit":
				f = f.Limit(limitN)
			}
			return func(ctx context.Context, _ int) { _, _ = f(ctx) }
		},
		"Future": func(o *wrapObj, kind string) func(context.Context, int) {
			f := fun.Future[int](func() int { o.body++; v := o.body; _ = o.end(nil); return v })
			switch kind {
			case "Lock":
				f = f.Lock()
			case "WithLock":
				f = f.WithLock(&sync.Mutex{})
			case "Once":
				f = f.Once()
			case "Limit":
				f = f.Limit(limitN)
			}
			return func(context.Context, int) { _ = f() }
		},
		"Handler": func(o *wrapObj, kind string) func(context.Context, int) {
			f := fun.Handler[int](func(v int) { o.body += v; _ = o.end(nil) })
			switch kind {
			case "Lock":
				f = f.Lock()
			case "WithLock":
				f = f.WithLock(&sync.Mutex{})
			case "Once":
				f = f.Once()
			}
			return func(_ context.Context, i int) { f(i) }
		},
		"Transform": func(o *wrapObj, kind string) func(context.Context, int) {
			f := fun.Transform[int, int](func(ctx context.Context, v int) (int, error) { o.body += v; r := o.body; return r, o.end(ctx) })
			switch kind {
			case "Lock":
				f = f.Lock()
			case "WithLock":
				f = f.WithLock(&sync.Mutex{})
			}
			return func(ctx context.Context, i int) { _, _ = f(ctx, i) }
		},
	}
	kinds := map[string][]string{
		"Operation": {"Lock", "WithLock", "Once", "Limit"},
		"Worker":    {"Lock", "WithLock", "Once", "Limit"},
		"Processor": {"Lock", "WithLock", "Once", "Limit"},
		"Producer":  {"Lock", "WithLock", "Once", "Limit"},
		"Future":    {"Lock", "WithLock", "Once", "Limit"},
		"Handler":   {"Lock", "WithLock", "Once"},
		"Transform": {"Lock", "WithLock"},
	}
	reg := func(comp, mname string, classes []string, mk func(o *wrapObj) func(context.Context, int)) {
		register(comp, &component{
			classes: classes,
			build: func(w *world, class string) {
				o := &wrapObj{}
				o.call = mk(o)
				switch class {
				case "used":
					o.call(context.Background(), 1)
				case "exhausted":
					for i := 0; i < limitN+1; i++ {
						o.call(context.Background(), 1)
					}
				case "err", "ctxerr", "ctxwait", "panic":
					o.mode = class // set before the object is shared, never written afterwards
				}
				w.obj = o
			},
			methods: map[string]method{mname: func(w *world, c *call) { wr(w).call(c.ctx, c.i) }},
		})
	}
	for ft, ks := range kinds {
		for _, k := range ks {
			ft, k := ft, k
			classes := []string{"fresh", "used"}
			if k == "Limit" && ft != "Operation" {
				classes = []string{"fresh", "exhausted"}
			}
			switch ft {
			case "Worker", "Processor", "Producer", "Transform":
				classes = append(classes, "err", "ctxerr", "panic")
			case "Operation":
				classes = append(classes, "ctxwait", "panic")
			default:
				classes = append(classes, "panic")
			}
			reg("wrap."+ft+"."+k, ft+"."+k+"()", classes, func(o *wrapObj) func(context.Context, int) { return fns[ft](o, k) })
		}
	}
	reg("wrap.Mnemonize", "Mnemonize()", []string{"fresh", "used", "panic"}, func(o *wrapObj) func(context.Context, int) {
		f := adt.Mnemonize(func() int { o.body++; v := o.body; _ = o.end(nil); return v })
		return func(context.Context, int) { _ = f() }
	})
}
