package main

import (
	"strings"

	"github.com/tychoish/fun"
	"github.com/tychoish/fun/pubsub"
)

// ---------------------------------------------------------------- pubsub.Queue

type queueObj struct {
	q     *pubsub.Queue[int]
	prod  fun.Producer[int]  // q.Producer(): shared closure
	iter  *fun.Iterator[int] // q.Iterator(): shared, only ReadOne / Close (documented safe)
	dist  pubsub.Distributor[int]
	diter *fun.Iterator[int] // q.Distributor().Iterator()
}

func qo(w *world) *queueObj { return w.obj.(*queueObj) }

func init() {
	register("queue", &component{
		classes: []string{"unlimited/empty", "unlimited/nonempty", "unlimited/iter-at-back", "unlimited/closed", "limit/empty", "limit/full", "limit/closed"},
		build: func(w *world, class string) {
			cfg, st, _ := strings.Cut(class, "/")
			o := &queueObj{}
			if cfg == "unlimited" {
				o.q = pubsub.NewUnlimitedQueue[int]()
			} else {
				q, err := pubsub.NewQueue[int](pubsub.QueueOptions{HardLimit: 8, SoftQuota: 4, BurstCredit: 2})
				if err != nil {
					fail(err.Error())
				}
				o.q = q
			}
			switch st {
			case "nonempty", "iter-at-back":
				for i := 0; i < 3; i++ {
					_ = o.q.Add(i)
				}
			case "full":
				for i := 0; i < 16; i++ {
					_ = o.q.Add(i)
				}
			case "closed":
				_ = o.q.Add(1)
				_ = o.q.Add(2)
				_ = o.q.Close()
			}
			o.prod = o.q.Producer()
			o.iter = o.q.Iterator()
			o.dist = o.q.Distributor()
			o.diter = o.dist.Iterator()
			if st == "iter-at-back" { // the non-destructive producer and iterator rest on the newest entry
				for i := 0; i < 3; i++ {
					_, _ = o.prod(w.ctx)
					_, _ = o.iter.ReadOne(w.ctx)
				}
			}
			w.obj = o
		},
		methods: map[string]method{
			"Queue.Add":                              func(w *world, c *call) { _ = qo(w).q.Add(c.i) },
			"Queue.Len":                              func(w *world, c *call) { _ = qo(w).q.Len() },
			"Queue.BlockingAdd":                      func(w *world, c *call) { _ = qo(w).q.BlockingAdd(c.ctx, c.i) },
			"Queue.Remove":                           func(w *world, c *call) { _, _ = qo(w).q.Remove() },
			"Queue.Wait":                             func(w *world, c *call) { _, _ = qo(w).q.Wait(c.ctx) },
			"Queue.Close":                            func(w *world, c *call) { _ = qo(w).q.Close() },
			"Queue.Producer":                         func(w *world, c *call) { _ = qo(w).q.Producer() },
			"Queue.Producer()":                       func(w *world, c *call) { _, _ = qo(w).prod(c.ctx) },
			"Queue.Iterator":                         func(w *world, c *call) { _ = qo(w).q.Iterator() },
			"Queue.Iterator().ReadOne":               func(w *world, c *call) { _, _ = qo(w).iter.ReadOne(c.ctx) },
			"Queue.Iterator().Close":                 func(w *world, c *call) { _ = qo(w).iter.Close() },
			"Queue.Distributor":                      func(w *world, c *call) { _ = qo(w).q.Distributor() },
			"Queue.Distributor().Send":               func(w *world, c *call) { _ = qo(w).dist.Send(c.ctx, c.i) },
			"Queue.Distributor().Receive":            func(w *world, c *call) { _, _ = qo(w).dist.Receive(c.ctx) },
			"Queue.Distributor().Len":                func(w *world, c *call) { _ = qo(w).dist.Len() },
			"Queue.Distributor().Iterator().ReadOne": func(w *world, c *call) { _, _ = qo(w).diter.ReadOne(c.ctx) },
		},
	})
}

// ---------------------------------------------------------------- pubsub.Deque

type dequeObj struct {
	dq     *pubsub.Deque[int]
	prod   map[string]fun.Producer[int]
	iter   *fun.Iterator[int]
	riter  *fun.Iterator[int]
	dist   pubsub.Distributor[int]
	distnb pubsub.Distributor[int]
}

func do(w *world) *dequeObj { return w.obj.(*dequeObj) }

func init() {
	ms := map[string]method{
		"Deque.Len":                              func(w *world, c *call) { _ = do(w).dq.Len() },
		"Deque.Close":                            func(w *world, c *call) { _ = do(w).dq.Close() },
		"Deque.PushFront":                        func(w *world, c *call) { _ = do(w).dq.PushFront(c.i) },
		"Deque.PushBack":                         func(w *world, c *call) { _ = do(w).dq.PushBack(c.i) },
		"Deque.PopFront":                         func(w *world, c *call) { _, _ = do(w).dq.PopFront() },
		"Deque.PopBack":                          func(w *world, c *call) { _, _ = do(w).dq.PopBack() },
		"Deque.WaitFront":                        func(w *world, c *call) { _, _ = do(w).dq.WaitFront(c.ctx) },
		"Deque.WaitBack":                         func(w *world, c *call) { _, _ = do(w).dq.WaitBack(c.ctx) },
		"Deque.ForcePushFront":                   func(w *world, c *call) { _ = do(w).dq.ForcePushFront(c.i) },
		"Deque.ForcePushBack":                    func(w *world, c *call) { _ = do(w).dq.ForcePushBack(c.i) },
		"Deque.WaitPushFront":                    func(w *world, c *call) { _ = do(w).dq.WaitPushFront(c.ctx, c.i) },
		"Deque.WaitPushBack":                     func(w *world, c *call) { _ = do(w).dq.WaitPushBack(c.ctx, c.i) },
		"Deque.Producer":                         func(w *world, c *call) { _ = do(w).dq.Producer() },
		"Deque.ProducerBlocking":                 func(w *world, c *call) { _ = do(w).dq.ProducerBlocking() },
		"Deque.ProducerReverse":                  func(w *world, c *call) { _ = do(w).dq.ProducerReverse() },
		"Deque.ProducerReverseBlocking":          func(w *world, c *call) { _ = do(w).dq.ProducerReverseBlocking() },
		"Deque.Iterator":                         func(w *world, c *call) { _ = do(w).dq.Iterator() },
		"Deque.IteratorReverse":                  func(w *world, c *call) { _ = do(w).dq.IteratorReverse() },
		"Deque.Iterator().ReadOne":               func(w *world, c *call) { _, _ = do(w).iter.ReadOne(c.ctx) },
		"Deque.IteratorReverse().ReadOne":        func(w *world, c *call) { _, _ = do(w).riter.ReadOne(c.ctx) },
		"Deque.Distributor().Send":               func(w *world, c *call) { _ = do(w).dist.Send(c.ctx, c.i) },
		"Deque.Distributor().Receive":            func(w *world, c *call) { _, _ = do(w).dist.Receive(c.ctx) },
		"Deque.Distributor().Len":                func(w *world, c *call) { _ = do(w).dist.Len() },
		"Deque.DistributorNonBlocking().Send":    func(w *world, c *call) { _ = do(w).distnb.Send(c.ctx, c.i) },
		"Deque.DistributorNonBlocking().Receive": func(w *world, c *call) { _, _ = do(w).distnb.Receive(c.ctx) },
		"Deque.DistributorNonBlocking().Len":     func(w *world, c *call) { _ = do(w).distnb.Len() },
	}
	for _, k := range []string{"Producer", "ProducerBlocking", "ProducerReverse", "ProducerReverseBlocking"} {
		k := k
		ms["Deque."+k+"()"] = func(w *world, c *call) { _, _ = do(w).prod[k](c.ctx) }
	}
	register("deque", &component{
		classes: []string{"cap/empty", "cap/nonempty", "cap/full", "cap/closed", "unlimited/empty", "unlimited/nonempty", "unlimited/iter-at-back", "quota/nonempty"},
		build: func(w *world, class string) {
			cfg, st, _ := strings.Cut(class, "/")
			var opts pubsub.DequeOptions
			switch cfg {
			case "cap":
				opts = pubsub.DequeOptions{Capacity: 4}
			case "unlimited":
				opts = pubsub.DequeOptions{Unlimited: true}
			case "quota":
				opts = pubsub.DequeOptions{QueueOptions: &pubsub.QueueOptions{HardLimit: 8, SoftQuota: 4, BurstCredit: 2}}
			}
			dq, err := pubsub.NewDeque[int](opts)
			if err != nil {
				fail(err.Error())
			}
			switch st {
			case "nonempty", "iter-at-back":
				_ = dq.PushBack(1)
				_ = dq.PushBack(2)
			case "full":
				for i := 0; i < 16; i++ {
					_ = dq.PushBack(i)
				}
			case "closed":
				_ = dq.PushBack(1)
				_ = dq.Close()
			}
			o := &dequeObj{dq: dq, prod: map[string]fun.Producer[int]{
				"Producer": dq.Producer(), "ProducerBlocking": dq.ProducerBlocking(),
				"ProducerReverse": dq.ProducerReverse(), "ProducerReverseBlocking": dq.ProducerReverseBlocking(),
			}}
			o.iter = dq.Iterator()
			o.riter = dq.IteratorReverse()
			o.dist = dq.Distributor()
			o.distnb = dq.DistributorNonBlocking()
			if st == "iter-at-back" { // every producer / iterator rests on the last element of its direction
				for i := 0; i < 2; i++ {
					for _, p := range o.prod {
						_, _ = p(w.ctx)
					}
					_, _ = o.iter.ReadOne(w.ctx)
					_, _ = o.riter.ReadOne(w.ctx)
				}
			}
			w.obj = o
		},
		methods: ms,
	})
}

// ---------------------------------------------------------------- pubsub.Broker

type brokerObj struct {
	br *pubsub.Broker[int]
}

func bo(w *world) *brokerObj { return w.obj.(*brokerObj) }

// drain reads a subscription until the round ends (a subscriber that stops reading would
// block a broker with blocking dispatch for ever).
func drain(w *world, ch chan int) {
	w.bg.Add(1)
	go func() {
		defer w.bg.Done()
		for {
			select {
			case <-ch:
			case <-w.ctx.Done():
				return
			}
		}
	}()
}

func init() {
	for _, kind := range []string{"chan", "queue", "deque", "lifo"} {
		kind := kind
		n := func(m string) string { return "Broker[" + kind + "]." + m }
		register("broker."+kind, &component{
			classes: []string{"serial/idle", "serial/subscribed", "parallel/subscribed", "serial/stopped"},
			build: func(w *world, class string) {
				cfg, st, _ := strings.Cut(class, "/")
				opts := pubsub.BrokerOptions{ParallelDispatch: cfg == "parallel"}
				o := &brokerObj{}
				switch kind {
				case "chan":
					o.br = pubsub.NewBroker[int](w.ctx, opts)
				case "queue":
					o.br = pubsub.NewQueueBroker[int](w.ctx, pubsub.NewUnlimitedQueue[int](), opts)
				case "deque":
					dq, err := pubsub.NewDeque[int](pubsub.DequeOptions{Capacity: 16})
					if err != nil {
						fail(err.Error())
					}
					o.br = pubsub.NewDequeBroker[int](w.ctx, dq, opts)
				case "lifo":
					o.br = pubsub.NewLIFOBroker[int](w.ctx, opts, 16)
				}
				switch st {
				case "subscribed":
					for i := 0; i < 2; i++ {
						if ch := o.br.Subscribe(w.ctx); ch != nil {
							drain(w, ch)
						}
					}
				case "stopped":
					o.br.Stop()
				}
				w.obj = o // the broker's goroutines end with the round's context (settle waits for them)
			},
			methods: map[string]method{
				n("Publish"): func(w *world, c *call) { bo(w).br.Publish(c.ctx, c.i) },
				n("Subscribe"): func(w *world, c *call) {
					if ch := bo(w).br.Subscribe(c.ctx); ch != nil {
						drain(w, ch)
						l, _ := w.local[c.tid].([]chan int)
						w.local[c.tid] = append(l, ch)
					}
				},
				n("Unsubscribe"): func(w *world, c *call) {
					l, _ := w.local[c.tid].([]chan int)
					var ch chan int
					if len(l) > 0 {
						ch, w.local[c.tid] = l[len(l)-1], l[:len(l)-1]
					} else {
						ch = make(chan int) // never subscribed: Unsubscribe must cope
					}
					bo(w).br.Unsubscribe(c.ctx, ch)
				},
				n("Populate()"): func(w *world, c *call) { _ = bo(w).br.Populate(fun.SliceIterator([]int{c.i, c.i + 1}))(c.ctx) },
				n("Stats"):      func(w *world, c *call) { _ = bo(w).br.Stats(c.ctx) },
				n("Stop"):       func(w *world, c *call) { bo(w).br.Stop() },
				n("Wait"):       func(w *world, c *call) { bo(w).br.Wait(c.ctx) },
			},
		})
	}
}
