package main

import (
	"context"
	"errors"
	"fmt"
	"strings"
	"sync"

	"github.com/tychoish/fun"
	"github.com/tychoish/fun/adt"
	"github.com/tychoish/fun/dt"
	"github.com/tychoish/fun/erc"
	"github.com/tychoish/fun/ers"
)

// ---------------------------------------------------------------- fun.WaitGroup

type wgObj struct {
	wg *fun.WaitGroup
	op fun.Operation // wg.Operation()
	wk fun.Worker    // wg.Worker()
}

func wo(w *world) *wgObj { return w.obj.(*wgObj) }

func init() {
	noop := fun.Operation(func(context.Context) {})
	register("waitgroup", &component{
		classes: []string{"zero", "positive"},
		build: func(w *world, class string) {
			o := &wgObj{wg: &fun.WaitGroup{}}
			if class == "positive" {
				o.wg.Add(1 << 20) // Done never reaches zero within a round
			}
			o.op = o.wg.Operation()
			o.wk = o.wg.Worker()
			w.obj = o
		},
		methods: map[string]method{
			"WaitGroup.Add": func(w *world, c *call) { wo(w).wg.Add(1) },
			// a Done without a matching Add is a documented invariant violation (and would make the Done of a
			// concurrent Launch panic inside a library goroutine): on a zero group the call is Add(1); Done()
			"WaitGroup.Done": func(w *world, c *call) {
				if w.class == "zero" {
					wo(w).wg.Add(1)
				}
				wo(w).wg.Done()
			},
			"WaitGroup.Inc":         func(w *world, c *call) { wo(w).wg.Inc() },
			"WaitGroup.Num":         func(w *world, c *call) { _ = wo(w).wg.Num() },
			"WaitGroup.IsDone":      func(w *world, c *call) { _ = wo(w).wg.IsDone() },
			"WaitGroup.Wait":        func(w *world, c *call) { wo(w).wg.Wait(c.ctx) },
			"WaitGroup.Operation()": func(w *world, c *call) { wo(w).op(c.ctx) },
			"WaitGroup.Worker()":    func(w *world, c *call) { _ = wo(w).wk(c.ctx) },
			"WaitGroup.Launch":      func(w *world, c *call) { wo(w).wg.Launch(c.ctx, noop) },
			"WaitGroup.DoTimes":     func(w *world, c *call) { wo(w).wg.DoTimes(c.ctx, 2, noop) },
		},
	})
}

// ---------------------------------------------------------------- erc.Collector

type colObj struct {
	ec  *erc.Collector
	h   fun.Handler[error]
	fut fun.Future[error]
}

func co(w *world) *colObj { return w.obj.(*colObj) }

var errSentinel = errors.New("sentinel")

func init() {
	register("collector", &component{
		classes: []string{"empty", "nonempty"},
		build: func(w *world, class string) {
			o := &colObj{ec: &erc.Collector{}}
			if class == "nonempty" {
				o.ec.Add(errors.New("e0"))
				o.ec.Add(errSentinel)
				o.ec.Add(errors.New("e2"))
			}
			o.h = o.ec.Handler()
			o.fut = o.ec.Future()
			w.obj = o
		},
		methods: map[string]method{
			"Collector.Add":       func(w *world, c *call) { co(w).ec.Add(fmt.Errorf("t%d.%d", c.tid, c.i)) },
			"Collector.Handler()": func(w *world, c *call) { co(w).h(fmt.Errorf("h%d.%d", c.tid, c.i)) },
			"Collector.Len":       func(w *world, c *call) { _ = co(w).ec.Len() },
			"Collector.Iterator":  func(w *world, c *call) { _ = co(w).ec.Iterator() },
			// an iterator of the Collector is private to the goroutine that made it: its producer keeps a
			// position without synchronisation (ers/merged.go CheckProducer) and fun.Iterator.ReadOne is
			// documented safe only "if the generator/producer function in the iterator is safe for concurrent use"
			"Collector.Iterator().ReadOne": func(w *world, c *call) {
				it, _ := w.local[c.tid].(*fun.Iterator[error])
				if it == nil || c.i%8 == 0 {
					it = co(w).ec.Iterator()
					w.local[c.tid] = it
				}
				_, _ = it.ReadOne(c.ctx)
			},
			"Collector.Resolve":   func(w *world, c *call) { _ = co(w).ec.Resolve() },
			"Collector.Future()":  func(w *world, c *call) { _ = co(w).fut() },
			"Collector.HasErrors": func(w *world, c *call) { _ = co(w).ec.HasErrors() },
			"Collector.Ok":        func(w *world, c *call) { _ = co(w).ec.Ok() },
			// use of the value Resolve hands out (explored; judged only when the spec says so)
			"Collector.Resolve().use": func(w *world, c *call) {
				if err := co(w).ec.Resolve(); err != nil {
					_ = err.Error()
					_ = errors.Is(err, errSentinel)
					_ = ers.Unwind(err)
				}
			},
		},
	})
}

// ---------------------------------------------------------------- adt.Synchronized / Atomic / Once / Map / Pool / Accessors

type syncObj struct {
	s  *adt.Synchronized[int]
	cb int // touched only inside With / Using callbacks: guarded by the Synchronized's mutex by contract
}

func so(w *world) *syncObj { return w.obj.(*syncObj) }

type poolCell struct {
	n   int
	pad [4]*int // not a tiny allocation: Make attaches a finalizer
}

// class "new" pools a value type: the default constructor of a pointer type yields nil, and
// Make on that is a fatal runtime error (SetFinalizer(nil)) - a robustness matter outside C13.
type poolObj struct {
	p *adt.Pool[*poolCell] // classes configured / finalized
	v *adt.Pool[poolCell]  // class new
}

type accObj struct {
	body int // touched only by the wrapped getter / setter
	get  fun.Future[int]
	set  fun.Handler[int]
}

func init() {
	register("synchronized", &component{
		classes: []string{"any", "cb-panics"},
		build:   func(w *world, class string) { w.obj = &syncObj{s: adt.NewSynchronized(7)} },
		methods: map[string]method{
			"Synchronized.With": func(w *world, c *call) {
				o := so(w)
				o.s.With(func(v int) {
					o.cb += v
					if w.class == "cb-panics" {
						panic("callback panics")
					}
				})
			},
			"Synchronized.Using": func(w *world, c *call) {
				o := so(w)
				o.s.Using(func() {
					o.cb++
					if w.class == "cb-panics" {
						panic("callback panics")
					}
				})
			},
			"Synchronized.Set":    func(w *world, c *call) { so(w).s.Set(c.i) },
			"Synchronized.Store":  func(w *world, c *call) { so(w).s.Store(c.i) },
			"Synchronized.Get":    func(w *world, c *call) { _ = so(w).s.Get() },
			"Synchronized.Load":   func(w *world, c *call) { _ = so(w).s.Load() },
			"Synchronized.String": func(w *world, c *call) { _ = so(w).s.String() },
			"Synchronized.Swap":   func(w *world, c *call) { _ = so(w).s.Swap(c.i) },
			"Synchronized.CompareAndSwap": func(w *world, c *call) {
				_ = adt.CompareAndSwap[int, *adt.Synchronized[int]](so(w).s, c.i, c.i+1)
			},
		},
	})

	at := func(w *world) *adt.Atomic[int] { return w.obj.(*adt.Atomic[int]) }
	register("atomic", &component{
		classes: []string{"unset", "set"},
		build: func(w *world, class string) {
			a := &adt.Atomic[int]{}
			if class == "set" {
				a.Set(3)
			}
			w.obj = a
		},
		methods: map[string]method{
			"Atomic.Set":   func(w *world, c *call) { at(w).Set(c.i) },
			"Atomic.Store": func(w *world, c *call) { at(w).Store(c.i) },
			"Atomic.Get":   func(w *world, c *call) { _ = at(w).Get() },
			"Atomic.Load":  func(w *world, c *call) { _ = at(w).Load() },
			"Atomic.Swap":  func(w *world, c *call) { _ = at(w).Swap(c.i) },
			"Atomic.CompareAndSwap": func(w *world, c *call) {
				_ = adt.CompareAndSwap[int, *adt.Atomic[int]](at(w), c.i, c.i+1)
			},
		},
	})

	on := func(w *world) *adt.Once[int] { return w.obj.(*adt.Once[int]) }
	register("once", &component{
		classes: []string{"new", "defined", "done"},
		build: func(w *world, class string) {
			o := &adt.Once[int]{}
			switch class {
			case "defined":
				o = adt.NewOnce(func() int { return 11 })
			case "done":
				o = adt.NewOnce(func() int { return 11 })
				_ = o.Resolve()
			}
			w.obj = o
		},
		methods: map[string]method{
			"Once.Do":      func(w *world, c *call) { v := c.i; on(w).Do(func() int { return v }) },
			"Once.Resolve": func(w *world, c *call) { _ = on(w).Resolve() },
			"Once.Set":     func(w *world, c *call) { v := c.i; on(w).Set(func() int { return v }) },
			"Once.Called":  func(w *world, c *call) { _ = on(w).Called() },
			"Once.Defined": func(w *world, c *call) { _ = on(w).Defined() },
		},
	})

	mp := func(w *world) *adt.Map[int, int] { return w.obj.(*adt.Map[int, int]) }
	consume := func(ctx context.Context, n func(context.Context) bool, cl func() error) {
		for n(ctx) {
		}
		_ = cl()
	}
	register("map", &component{
		classes: []string{"empty", "nonempty"},
		build: func(w *world, class string) {
			m := &adt.Map[int, int]{}
			if class == "nonempty" {
				for i := 0; i < 6; i++ {
					m.Store(i, i)
				}
			}
			w.obj = m
		},
		methods: map[string]method{
			"Map.Delete":        func(w *world, c *call) { mp(w).Delete(c.i % 8) },
			"Map.Store":         func(w *world, c *call) { mp(w).Store(c.i%8, c.i) },
			"Map.Set":           func(w *world, c *call) { mp(w).Set(dt.MakePair(c.i%8, c.i)) },
			"Map.Ensure":        func(w *world, c *call) { mp(w).Ensure(c.i % 8) },
			"Map.Check":         func(w *world, c *call) { _ = mp(w).Check(c.i % 8) },
			"Map.Load":          func(w *world, c *call) { _, _ = mp(w).Load(c.i % 8) },
			"Map.EnsureStore":   func(w *world, c *call) { _ = mp(w).EnsureStore(c.i%8, c.i) },
			"Map.EnsureSet":     func(w *world, c *call) { _ = mp(w).EnsureSet(dt.MakePair(c.i%8, c.i)) },
			"Map.Get":           func(w *world, c *call) { _ = mp(w).Get(c.i % 8) },
			"Map.EnsureDefault": func(w *world, c *call) { v := c.i; _ = mp(w).EnsureDefault(c.i%8, func() int { return v }) },
			"Map.MarshalJSON":   func(w *world, c *call) { _, _ = mp(w).MarshalJSON() },
			"Map.UnmarshalJSON": func(w *world, c *call) { _ = mp(w).UnmarshalJSON([]byte(`{"1":2,"9":3}`)) },
			"Map.Len":           func(w *world, c *call) { _ = mp(w).Len() },
			"Map.Range":         func(w *world, c *call) { mp(w).Range(func(int, int) bool { return true }) },
			"Map.Iterator":      func(w *world, c *call) { it := mp(w).Iterator(); consume(c.ctx, it.Next, it.Close) },
			"Map.Keys":          func(w *world, c *call) { it := mp(w).Keys(); consume(c.ctx, it.Next, it.Close) },
			"Map.Values":        func(w *world, c *call) { it := mp(w).Values(); consume(c.ctx, it.Next, it.Close) },
			"Map.Swap":          func(w *world, c *call) { _, _ = mp(w).Swap(c.i%8, c.i) },
		},
	})

	po := func(w *world) *poolObj { return w.obj.(*poolObj) }
	register("pool", &component{
		classes: []string{"new", "configured", "finalized"},
		build: func(w *world, class string) {
			if class == "new" {
				w.obj = &poolObj{v: &adt.Pool[poolCell]{}}
				return
			}
			p := &adt.Pool[*poolCell]{}
			p.SetConstructor(func() *poolCell { return &poolCell{} })
			p.SetCleanupHook(func(in *poolCell) *poolCell { return in })
			if class == "finalized" {
				p.FinalizeSetup()
			}
			w.obj = &poolObj{p: p}
		},
		methods: map[string]method{
			"Pool.FinalizeSetup": func(w *world, c *call) {
				if o := po(w); o.v != nil {
					o.v.FinalizeSetup()
				} else {
					o.p.FinalizeSetup()
				}
			},
			// Set* panic once finalized (documented invariant), recovered
			"Pool.SetCleanupHook": func(w *world, c *call) {
				if o := po(w); o.v != nil {
					o.v.SetCleanupHook(func(in poolCell) poolCell { return in })
				} else {
					o.p.SetCleanupHook(func(in *poolCell) *poolCell { return in })
				}
			},
			"Pool.SetConstructor": func(w *world, c *call) {
				if o := po(w); o.v != nil {
					o.v.SetConstructor(func() poolCell { return poolCell{n: 1} })
				} else {
					o.p.SetConstructor(func() *poolCell { return &poolCell{} })
				}
			},
			// objects are private to the thread that got them; only objects from Get are handed to Put
			// (an object from Make carries a finalizer and must not be Put by hand, pool.go:91-93)
			"Pool.Get": func(w *world, c *call) {
				if o := po(w); o.v != nil {
					_ = o.v.Get()
				} else {
					w.local[c.tid] = o.p.Get()
				}
			},
			"Pool.Put": func(w *world, c *call) {
				o := po(w)
				if o.v != nil {
					o.v.Put(poolCell{n: c.i})
				} else if x, ok := w.local[c.tid].(*poolCell); ok && x != nil {
					w.local[c.tid] = nil
					o.p.Put(x)
				} else {
					o.p.Put(&poolCell{})
				}
			},
			"Pool.Make": func(w *world, c *call) {
				if o := po(w); o.v != nil {
					_ = o.v.Make()
				} else {
					_ = o.p.Make()
				}
			},
		},
	})

	ac := func(w *world) *accObj { return w.obj.(*accObj) }
	mk := func(rw bool) func(w *world, class string) {
		return func(w *world, class string) {
			o := &accObj{}
			fails := class == "panic"
			g := fun.Future[int](func() int {
				v := o.body
				if fails {
					panic("getter panics")
				}
				return v
			})
			s := fun.Handler[int](func(v int) {
				o.body = v
				if fails {
					panic("setter panics")
				}
			})
			if rw {
				o.get, o.set = adt.AccessorsWithReadLock(g, s)
			} else {
				o.get, o.set = adt.AccessorsWithLock(g, s)
			}
			w.obj = o
		}
	}
	register("accessors", &component{classes: []string{"any", "panic"}, build: mk(false), methods: map[string]method{
		"AccessorsWithLock.get": func(w *world, c *call) { _ = ac(w).get() },
		"AccessorsWithLock.set": func(w *world, c *call) { ac(w).set(c.i) },
	}})
	register("accessors.rw", &component{classes: []string{"any", "panic"}, build: mk(true), methods: map[string]method{
		"AccessorsWithReadLock.get": func(w *world, c *call) { _ = ac(w).get() },
		"AccessorsWithReadLock.set": func(w *world, c *call) { ac(w).set(c.i) },
	}})
}

// ---------------------------------------------------------------- dt.Set with a mutex

type setObj struct {
	s, o *dt.Set[int]
	once sync.Once          // class fresh: the shared closures are made on first use (making them initialises the set)
	prod fun.Producer[int]  // s.Producer(): "If the Set is synchronize, then the Producer always holds the Set's lock when called"
	iter *fun.Iterator[int] // s.Iterator(): shared, only ReadOne
}

func st(w *world) *setObj { return w.obj.(*setObj) }

func (o *setObj) closures() *setObj {
	o.once.Do(func() { o.prod = o.s.Producer(); o.iter = o.s.Iterator() })
	return o
}

func init() {
	lt := func(a, b int) bool { return a < b }
	register("set", &component{
		classes: []string{"unordered/fresh", "unordered/empty", "unordered/nonempty", "unordered/differs", "ordered/empty", "ordered/nonempty", "ordered/differs"},
		build: func(w *world, class string) {
			cfg, state, _ := strings.Cut(class, "/")
			mkset := func(shift int) *dt.Set[int] {
				s := &dt.Set[int]{}
				s.Synchronize()
				if cfg == "ordered" {
					s.Order()
				}
				if state == "nonempty" || state == "differs" {
					for i := 0; i < 12; i++ {
						s.Add(i*3 + shift)
					}
				}
				return s
			}
			shift := 0
			if state == "differs" { // same size, other members: Equal has to look at the members
				shift = 1
			}
			o := &setObj{s: mkset(0), o: mkset(shift)}
			if state != "fresh" {
				o.closures()
			}
			w.obj = o
		},
		methods: map[string]method{
			"Set.Synchronize":        func(w *world, c *call) { st(w).s.Synchronize() },
			"Set.Order":              func(w *world, c *call) { st(w).s.Order() }, // non-empty unordered set: documented invariant panic, recovered
			"Set.SortQuick":          func(w *world, c *call) { st(w).s.SortQuick(lt) },
			"Set.SortMerge":          func(w *world, c *call) { st(w).s.SortMerge(lt) },
			"Set.AddCheck":           func(w *world, c *call) { _ = st(w).s.AddCheck((c.i*2 + c.tid) % 64) },
			"Set.Add":                func(w *world, c *call) { st(w).s.Add((c.i*2 + c.tid) % 64) },
			"Set.Len":                func(w *world, c *call) { _ = st(w).s.Len() },
			"Set.Check":              func(w *world, c *call) { _ = st(w).s.Check(c.i % 64) },
			"Set.DeleteCheck":        func(w *world, c *call) { _ = st(w).s.DeleteCheck(c.i % 64) },
			"Set.Delete":             func(w *world, c *call) { st(w).s.Delete(c.i % 64) },
			"Set.Producer":           func(w *world, c *call) { _ = st(w).s.Producer() },
			"Set.Producer()":         func(w *world, c *call) { _, _ = st(w).closures().prod(c.ctx) },
			"Set.Iterator":           func(w *world, c *call) { _ = st(w).s.Iterator() },
			"Set.Iterator().ReadOne": func(w *world, c *call) { _, _ = st(w).closures().iter.ReadOne(c.ctx) },
			"Set.MarshalJSON":        func(w *world, c *call) { _, _ = st(w).s.MarshalJSON() },
			"Set.Populate":           func(w *world, c *call) { st(w).s.Populate(fun.SliceIterator([]int{c.i % 64, 65, 66})) },
			"Set.UnmarshalJSON":      func(w *world, c *call) { _ = st(w).s.UnmarshalJSON([]byte(`[1,2,67]`)) },
			"Set.Extend":             func(w *world, c *call) { st(w).s.Extend(st(w).o) },
			"Set.Equal":              func(w *world, c *call) { _ = st(w).s.Equal(st(w).o) },
			"Set.Add@o":              func(w *world, c *call) { st(w).o.Add((c.i*2 + c.tid) % 64) },
			"Set.Delete@o":           func(w *world, c *call) { st(w).o.Delete(c.i % 64) },
			"Set.SortQuick@o":        func(w *world, c *call) { st(w).o.SortQuick(lt) },
		},
	})
}
