//go:build c13guard

package main

// Compiled only against a repository that carries fixes/hook-c13-guard-probes.addonly.diff
// (run/props/c13_build.py tries this tag first and falls back to the build without it).

import (
	"sync"

	"github.com/tychoish/fun"
	"github.com/tychoish/fun/dt"
	"github.com/tychoish/fun/pubsub"
)

const guardHooksCompiled = true

func guardInstall(h func(point string, mu *sync.Mutex)) {
	pubsub.VerifGuardHook = h
	fun.VerifGuardHook = h
	dt.VerifGuardHook = h
}

// guardFire calls the installed hooks the way the library does (self-test of the probe handler).
func guardFire(point string, mu *sync.Mutex) {
	pubsub.VerifGuardHook(point+"/pubsub", mu)
	fun.VerifGuardHook(point+"/fun", mu)
	dt.VerifGuardHook(point+"/dt", mu)
}
