//go:build !c13guard

package main

import "sync"

const guardHooksCompiled = false

func guardInstall(func(point string, mu *sync.Mutex)) {}

func guardFire(string, *sync.Mutex) {}
