// vh-race binds spec/lock (LockDiscipline.tla, LockTrace.tla) to the real code of
// tychoish/fun for property C13 (documented-safe types are free of data races).
//
// The obligations come from TLC (the OBLIG lines printed by LockDiscipline.tla): the
// method pairs that touch a common cell with at least one write, the state classes, the
// set of methods that may block, and the (method, helper) choke points.  This binary only
// executes them; it decides nothing.  The observers are the Go race detector (sub-commands
// pairs / multi, built with -race) and the TryLock guard probes (sub-command probe, built
// with -tags c13guard against a repository that carries fixes/hook-c13-guard-probes.addonly.diff).
//
//	vh-race list                      the components, classes and methods this binary can drive
//	vh-race pairs  < jobs.ndjson      {"n","comp","class","m1","m2","blocking":[..],"rounds","iters"}
//	vh-race multi  < jobs.ndjson      {"n","comp","class","methods":[..],"blocking":[..],"threads","ops","seed"}
//	vh-race probe  < jobs.ndjson      {"n","comp","class","m","blocking":bool}   (single goroutine)
//	vh-race selftest toy-race|probe   deliberately wrong objects: the observers must report them
//
// Every job prints {"begin":n} before and {"end":n,...} after it on stdout and the markers
// "@@C13 BEGIN n" / "@@C13 END n" on stderr, the stream the race detector writes its reports
// to, so that a report can be attributed to the job during which it was printed.
//
// The harness shares nothing between its goroutines but the object under test (and the
// closures that object handed out); state touched by harness callbacks is plain (non-atomic)
// only where the wrapper's contract is that the callback runs under its lock / once.
// Timers are used only to unblock a round whose calls all block (cancelling a context is
// always allowed); no verdict depends on time.
package main

import (
	"context"
	"encoding/json"
	"fmt"
	"math/rand"
	"os"
	"runtime"
	"sort"
	"sync"
	"sync/atomic"
	"time"

	"verif/harness/rt"
)

// call is one invocation of a method by a driver thread.
type call struct {
	ctx context.Context // the round's context, or an already cancelled one
	tid int             // driver thread (0, 1, ...)
	i   int             // iteration
}

type method func(w *world, c *call)

type component struct {
	classes []string
	build   func(w *world, class string) // fills the world with a fresh shared object in that class
	methods map[string]method
}

// world is everything one round shares: created fresh for every round.
type world struct {
	comp, class string
	ctx         context.Context
	cancel      context.CancelFunc
	dead        context.Context // already cancelled
	cleanup     []func()
	obj         any            // component specific state
	local       [8]any         // per driver thread scratch (never shared)
	bg          sync.WaitGroup // harness goroutines started for the round (drainers)
}

var components = map[string]*component{}

func register(name string, c *component) { components[name] = c }

func newWorld(comp, class string) *world {
	w := &world{comp: comp, class: class}
	w.ctx, w.cancel = context.WithCancel(context.Background())
	d, dc := context.WithCancel(context.Background())
	dc()
	w.dead = d
	components[comp].build(w, class)
	return w
}

func (w *world) finish() {
	w.cancel()
	for _, f := range w.cleanup {
		f()
	}
	w.bg.Wait()
}

// safe runs one library call and swallows the panics the API documents (invariant
// violations such as a negative WaitGroup counter or Pool.Set* after FinalizeSetup).
func safe(fn func()) {
	defer func() { _ = recover() }()
	fn()
}

type job struct {
	N        int      `json:"n"`
	Comp     string   `json:"comp"`
	Class    string   `json:"class"`
	M1       string   `json:"m1"`
	M2       string   `json:"m2"`
	M        string   `json:"m"`
	Methods  []string `json:"methods"`
	Blocking []string `json:"blocking"`
	Rounds   int      `json:"rounds"`
	Iters    int      `json:"iters"`
	Threads  int      `json:"threads"`
	Ops      int      `json:"ops"`
	Seed     int64    `json:"seed"`
	Block    bool     `json:"block"`
	Shapes   []string `json:"shapes"` // schedule shapes (LockTable!Shapes); round r uses Shapes[r mod len]
}

// pace idles for a moment without any synchronisation (reading the clock is none), so that a paced
// thread falls behind the other one between two of its calls.
func pace() {
	for t := time.Now(); time.Since(t) < 15*time.Microsecond; {
	}
}

// pacedThreads says which of the two threads of a pair idle between their calls in a schedule shape.
func pacedThreads(shape string) [2]bool {
	switch shape {
	case "first-paced":
		return [2]bool{true, false}
	case "second-paced":
		return [2]bool{false, true}
	case "both-paced":
		return [2]bool{true, true}
	}
	return [2]bool{}
}

func marker(kind string, n int) { fmt.Fprintf(os.Stderr, "@@C13 %s %d\n", kind, n) }

// settle waits (bounded) until the goroutines of the finished round are gone, so that a late
// report is not printed inside the next job's markers.  It gives up when the number of goroutines
// stops falling (a goroutine the library leaked stays for ever; attribution of a report is
// re-established by the isolated re-run anyway).
func settle(base int) {
	last, same := -1, 0
	for k := 0; k < 400; k++ {
		n := runtime.NumGoroutine()
		if n <= base {
			return
		}
		if n == last {
			if same++; same > 40 {
				return
			}
		} else {
			last, same = n, 0
		}
		runtime.Gosched()
		if k > 20 {
			time.Sleep(10 * time.Microsecond)
		}
	}
}

// runRound starts one goroutine per plan entry from a start barrier; plan[t](k) performs the
// k-th call of thread t; a thread with paced[t] idles between its calls; with reverse the
// goroutines are created in the opposite order.  Once a thread has finished, the others keep
// running as long as they complete calls; when no call completed for a while (all remaining
// threads blocked: ~5 ms, or ~0.6 ms after a thread finished) the round's context is cancelled.
// Returns the number of calls completed and whether the watchdog cancelled before any thread finished.
func runRound(w *world, n []int, paced []bool, reverse bool, plan func(t, k int)) (int64, bool) {
	var progress atomic.Int64
	var start sync.WaitGroup
	start.Add(1)
	done := make(chan int, len(n))
	for i := range n {
		t := i
		if reverse {
			t = len(n) - 1 - i
		}
		go func(t int) {
			start.Wait()
			for k := 0; k < n[t]; k++ {
				safe(func() { plan(t, k) })
				progress.Add(1)
				if paced != nil && paced[t] {
					pace()
				}
			}
			done <- t
		}(t)
	}
	start.Done()
	remaining, last, idle, stalled, limit, cancelled := len(n), int64(-1), 0, false, 25, false
	tick := time.NewTicker(200 * time.Microsecond)
	defer tick.Stop()
	for remaining > 0 {
		select {
		case <-done:
			remaining--
			limit = 3
		case <-tick.C:
			if p := progress.Load(); p != last {
				last, idle = p, 0
			} else if idle++; idle >= limit && !cancelled {
				cancelled = true
				stalled = remaining == len(n)
				w.cancel()
			} else if idle > 100000 { // 20 s without any progress after cancellation: give up (exit 3 = infrastructure)
				fmt.Fprintf(os.Stderr, "@@C13 STUCK comp=%s class=%s\n", w.comp, w.class)
				buf := make([]byte, 1<<20)
				os.Stderr.Write(buf[:runtime.Stack(buf, true)])
				os.Exit(3)
			}
		}
	}
	return progress.Load(), stalled
}

func lookup(comp, m string) method {
	c := components[comp]
	if c == nil {
		fail("unknown component " + comp)
	}
	f := c.methods[m]
	if f == nil {
		fail("component " + comp + " has no driver for method " + m)
	}
	return f
}

func fail(msg string) {
	rt.Emit(map[string]any{"fatal": msg})
	rt.Flush()
	fmt.Fprintln(os.Stderr, "vh-race: "+msg)
	os.Exit(4)
}

func contains(l []string, s string) bool {
	for _, x := range l {
		if x == s {
			return true
		}
	}
	return false
}

func runPair(j job) map[string]any {
	f := []method{lookup(j.Comp, j.M1), lookup(j.Comp, j.M2)}
	blk := []bool{contains(j.Blocking, j.M1), contains(j.Blocking, j.M2)}
	base := runtime.NumGoroutine()
	var calls int64
	stalls := 0
	shapes := map[string]bool{}
	for r := 0; r < j.Rounds; r++ {
		w := newWorld(j.Comp, j.Class)
		// when both methods may block, the second thread's calls get a cancelled context (two
		// calls blocked on each other's progress would only be released by the watchdog); in
		// odd rounds the roles are swapped.
		deadFor := -1
		if blk[0] && blk[1] {
			deadFor = 1 - r%2
		}
		shape := "free"
		if len(j.Shapes) > 0 {
			shape = j.Shapes[r%len(j.Shapes)]
			shapes[shape] = true
		}
		pc := pacedThreads(shape)
		// the order in which the two goroutines are created alternates every len(Shapes) rounds
		n, st := runRound(w, []int{j.Iters, j.Iters}, pc[:], len(j.Shapes) > 0 && (r/len(j.Shapes))%2 == 1, func(t, k int) {
			c := &call{ctx: w.ctx, tid: t, i: k}
			if t == deadFor {
				c.ctx = w.dead
			}
			f[t](w, c)
		})
		calls += n
		if st {
			stalls++
		}
		w.finish()
		settle(base)
	}
	return map[string]any{"end": j.N, "calls": calls, "stalls": stalls, "shapes": len(shapes)}
}

func runMulti(j job) map[string]any {
	fs := make([]method, len(j.Methods))
	for i, m := range j.Methods {
		fs[i] = lookup(j.Comp, m)
	}
	base := runtime.NumGoroutine()
	var calls int64
	stalls := 0
	for r := 0; r < j.Rounds; r++ {
		w := newWorld(j.Comp, j.Class)
		// the schedule of every thread is fixed before the round starts (nothing shared at run time)
		plan := make([][]int, j.Threads)
		dead := make([][]bool, j.Threads)
		ns := make([]int, j.Threads)
		for t := range plan {
			rng := rand.New(rand.NewSource(j.Seed*7919 + int64(r)*104729 + int64(t)))
			plan[t] = make([]int, j.Ops)
			dead[t] = make([]bool, j.Ops)
			for k := range plan[t] {
				plan[t][k] = rng.Intn(len(fs))
				// a blocking call gets a live context only on thread 0, every fourth time
				dead[t][k] = contains(j.Blocking, j.Methods[plan[t][k]]) && !(t == 0 && rng.Intn(4) == 0)
			}
			ns[t] = j.Ops
		}
		// odd rounds: every second thread idles between its calls
		var pc []bool
		if r%2 == 1 {
			pc = make([]bool, j.Threads)
			for t := range pc {
				pc[t] = t%2 == 1
			}
		}
		n, st := runRound(w, ns, pc, r%4 >= 2, func(t, k int) {
			c := &call{ctx: w.ctx, tid: t, i: k}
			if dead[t][k] {
				c.ctx = w.dead
			}
			fs[plan[t][k]](w, c)
		})
		calls += n
		if st {
			stalls++
		}
		w.finish()
		settle(base)
	}
	return map[string]any{"end": j.N, "calls": calls, "stalls": stalls}
}

func main() {
	if len(os.Args) < 2 {
		fmt.Fprintln(os.Stderr, "usage: vh-race list|pairs|multi|probe|selftest")
		os.Exit(2)
	}
	switch os.Args[1] {
	case "list":
		names := make([]string, 0, len(components))
		for n := range components {
			names = append(names, n)
		}
		sort.Strings(names)
		for _, n := range names {
			c := components[n]
			ms := make([]string, 0, len(c.methods))
			for m := range c.methods {
				ms = append(ms, m)
			}
			sort.Strings(ms)
			rt.Emit(map[string]any{"comp": n, "classes": c.classes, "methods": ms})
		}
		rt.Emit(map[string]any{"guard_hooks": guardHooksCompiled, "race": raceEnabled})
	case "pairs", "multi":
		multi := os.Args[1] == "multi"
		rt.ReadLines(func(_ int, raw json.RawMessage) {
			var j job
			if err := json.Unmarshal(raw, &j); err != nil {
				fail(err.Error())
			}
			rt.Emit(map[string]any{"begin": j.N})
			rt.Flush()
			marker("BEGIN", j.N)
			t0 := time.Now()
			var out map[string]any
			if multi {
				out = runMulti(j)
			} else {
				out = runPair(j)
			}
			marker("END", j.N)
			out["us"] = time.Since(t0).Microseconds() // diagnostics only
			rt.Emit(out)
			rt.Flush()
		})
	case "probe":
		probeMain()
	case "selftest":
		if len(os.Args) < 3 {
			fail("selftest toy-race|probe")
		}
		selftest(os.Args[2])
	default:
		fail("unknown sub-command " + os.Args[1])
	}
	rt.Flush()
}
