package main

import (
	"sync"

	"verif/harness/rt"
)

// toyCounter is deliberately racy.  It is reachable only through `vh-race selftest toy-race`:
// the race detector must report it, and the report classifier must (a) attribute it when told
// that main.(*toyCounter) is "library" code and (b) ignore it under the real rule (both
// accesses inside github.com/tychoish/fun).
type toyCounter struct{ n int }

//go:noinline
func (t *toyCounter) Inc() { t.n++ }

func selftest(kind string) {
	switch kind {
	case "toy-race":
		marker("BEGIN", 0)
		t := &toyCounter{}
		var start, done sync.WaitGroup
		start.Add(1)
		done.Add(2)
		for g := 0; g < 2; g++ {
			go func() {
				defer done.Done()
				start.Wait()
				for i := 0; i < 2000; i++ {
					t.Inc()
				}
			}()
		}
		start.Done()
		done.Wait()
		marker("END", 0)
		rt.Emit(map[string]any{"end": 0, "race_build": raceEnabled})
	case "probe":
		if !guardHooksCompiled {
			rt.Emit(map[string]any{"probes": "unavailable"})
			return
		}
		guardInstall(probeHandler)
		rec := &probeRec{seen: map[string]*[3]int{}}
		curProbe.Store(rec)
		var mu sync.Mutex
		guardFire("selftest.unlocked", &mu) // nobody holds mu: every handler must report "unheld"
		mu.Lock()
		guardFire("selftest.locked", &mu)
		mu.Unlock()
		guardFire("selftest.nomutex", nil)
		curProbe.Store(nil)
		rt.Emit(map[string]any{"probes": rec.events()})
	default:
		fail("unknown selftest " + kind)
	}
}
