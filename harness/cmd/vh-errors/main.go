// vh-errors binds spec/errors to the real ers / erc packages (property C12).
//
//	vh-errors replay  < terms.ndjson    build each ErrAlgebra term with the real functions and compare the
//	                                    observation vector computed by the spec's oracle
//	vh-errors script  < scripts.ndjson  run CollectorStep driver schedules on one goroutine, print the recorded history
//	vh-errors record N SEED             concurrent Collector histories for CollectorLinTrace
package main

import (
	"context"
	"encoding/json"
	"errors"
	"fmt"
	"math/rand"
	"os"
	"runtime"
	"sort"
	"strconv"
	"strings"
	"sync"
	"sync/atomic"

	"github.com/tychoish/fun"
	"github.com/tychoish/fun/erc"
	"github.com/tychoish/fun/ers"
	"verif/harness/rt"
)

// ------------------------------------------------------------------ leaf universe

type typedA struct{ id string }
type typedB struct{ id string }
type typedC struct{ id string } // no leaf has this type

func (e *typedA) Error() string { return "typedA:" + e.id }
func (e *typedB) Error() string { return "typedB:" + e.id }
func (e *typedC) Error() string { return "typedC:" + e.id }

const (
	sent1 ers.Error = "s1"
	sent2 ers.Error = "s2"
	unrel ers.Error = "u1"
)

var universe = map[string]error{
	"s1": sent1, "s2": sent2,
	"p1": errors.New("p1"),
	"t1": &typedA{"t1"}, "t2": &typedB{"t2"},
	"u1": unrel, "u2": errors.New("u2"),
	"RP": ers.ErrRecoveredPanic,
}

// the caller's own composite errors: Unwind() / Unwrap() []error hand out the object's OWN slice,
// nil holes included (a per-slot batch result).  hBoth implements both with different meanings.
type hUnwind struct {
	name string
	errs []error
}
type hUnwrap struct {
	name string
	errs []error
}
type hBoth struct {
	name string
	errs []error
	alt  []error
}

func (h *hUnwind) Error() string   { return "hunwind:" + h.name }
func (h *hUnwind) Unwind() []error { return h.errs }
func (h *hUnwrap) Error() string   { return "hunwrap:" + h.name }
func (h *hUnwrap) Unwrap() []error { return h.errs }
func (h *hBoth) Error() string     { return "hboth:" + h.name }
func (h *hBoth) Unwind() []error   { return h.errs }
func (h *hBoth) Unwrap() []error   { return h.alt }

func holey(kind, name string, errs []error) error {
	switch kind {
	case "hunwind":
		return &hUnwind{name, errs}
	case "hunwrap":
		return &hUnwrap{name, errs}
	case "hboth":
		return &hBoth{name, errs, []error{universe["u2"]}}
	}
	panic("unknown holey kind " + kind)
}

// ------------------------------------------------------------------ terms

type term struct {
	Op   string `json:"op"`
	ID   string `json:"id"`
	Args []term `json:"args"`
}

type probe struct {
	Path string   `json:"path"`
	Mode string   `json:"mode"` // "seq": exactly this listing; "bag": these, in any order
	IDs  []string `json:"ids"`
}

type obs struct {
	Term   term            `json:"term"`
	Sched  []string        `json:"sched"`
	Probes []probe         `json:"probes"`
	Agg    bool            `json:"agg"`
	NonNil bool            `json:"nonnil"`
	Ok     bool            `json:"ok"`
	Is     map[string]bool `json:"is"`
	As     map[string]bool `json:"as"`
	Groups [][]string      `json:"groups"`
	Count  int             `json:"count"`
	Ident  string          `json:"ident"`
}

type input struct {
	N   int `json:"n"`
	Beh obs `json:"beh"`
}

// builder keeps the identity of every value it creates, so that what ers.Unwind returns
// can be mapped back to the constituent ids the spec talks about.
type builder struct {
	reg    map[error]string // value -> id ("s1", "@r.1", "m@r.2", ...)
	annot  map[string]bool  // annotation texts handed to ers.Wrap
	rootSt *ers.Stack
	rootC  *erc.Collector

	probes   map[string]probe // operands to observe (by path)
	early    bool             // observe every such operand as soon as it is built, before its parent uses it
	operands map[string]error // the operand values, for later observation
	order    []string
	fail     string // first wrong operand observation
}

// probeOne: ers.Unwind(operand) must list what the spec says, however often it is asked.
func (b *builder) probeOne(path, when string) {
	p := b.probes[path]
	un := ers.Unwind(b.operands[path])
	got := make([]string, len(un))
	for i, e := range un {
		got[i], _ = b.idOf(e)
	}
	ok := sameBag(got, p.IDs)
	if ok && p.Mode == "seq" {
		for i := range got {
			ok = ok && got[i] == p.IDs[i]
		}
	}
	if !ok && b.fail == "" {
		b.fail = fmt.Sprintf("ers.Unwind(operand at %s) %s lists %v, the operand holds %v (%s)", path, when, got, p.IDs, p.Mode)
	}
}

// build constructs the value of t; aggregates are remembered too ("st@path") so that the
// nothing-invented check of the single-constituent case knows every value the term created.
func (b *builder) build(t term, path string, root bool) error {
	e := b.build1(t, path, root)
	if e != nil {
		if _, ok := b.reg[e]; !ok {
			if st, isSt := e.(*ers.Stack); isSt && st != nil {
				b.reg[e] = "st@" + path
			}
		}
	}
	if _, ok := b.probes[path]; ok && !root {
		b.operands[path] = e
		b.order = append(b.order, path)
		if b.early {
			b.probeOne(path, "before the operand is used")
		}
	}
	return e
}

func (b *builder) build1(t term, path string, root bool) error {
	args := make([]error, len(t.Args))
	for i := range t.Args {
		args[i] = b.build(t.Args[i], path+"."+strconv.Itoa(i+1), false)
	}
	switch t.Op {
	case "nil":
		return nil
	case "nstack": // a typed-nil *ers.Stack in an error interface
		if strings.Count(path, ".")%2 == 0 {
			return ers.AsStack(nil)
		}
		var st *ers.Stack
		return st
	case "hunwind", "hunwrap", "hboth":
		e := holey(t.Op, path, args)
		b.reg[e] = "h@" + path
		return e
	case "leaf":
		e := universe[t.ID]
		b.reg[e] = t.ID
		return e
	case "wrap1":
		e := fmt.Errorf("w@%s: %w", path, args[0])
		b.reg[e] = "@" + path
		return e
	case "multi":
		e := errors.Join(args...)
		if e != nil {
			b.reg[e] = "m@" + path
		}
		return e
	case "join":
		return ers.Join(args...)
	case "sres":
		st := &ers.Stack{}
		for _, a := range args {
			st.Push(a)
		}
		return st.Resolve()
	case "stack":
		st := &ers.Stack{}
		if len(args)%2 == 0 {
			st.Add(args...)
		} else {
			h := st.Handler()
			for _, a := range args {
				h(a)
			}
		}
		if root {
			b.rootSt = st
		}
		return st
	case "coll":
		c := &erc.Collector{}
		for _, a := range args {
			c.Add(a)
		}
		if root {
			b.rootC = c
		}
		return c.Resolve()
	case "erswrap":
		b.annot["ann@"+path] = true
		if strings.Count(path, ".")%2 == 0 {
			return ers.Wrap(args[0], "ann@"+path)
		}
		return ers.Wrapf(args[0], "%s", "ann@"+path)
	case "panic":
		if args[0] == nil {
			return ers.ParsePanic(nil)
		}
		return ers.ParsePanic(args[0])
	case "panics":
		return ers.ParsePanic(args)
	case "tail": // the interior node errors.Unwrap hands out for a *ers.Stack holding >= 2 errors
		return errors.Unwrap(args[0])
	}
	panic("unknown op " + t.Op)
}

func (b *builder) idOf(e error) (string, bool) {
	if e == nil {
		return "<nil>", false
	}
	if id, ok := b.reg[e]; ok {
		return id, true
	}
	if _, ok := e.(*ers.Stack); !ok {
		if s := e.Error(); b.annot[s] {
			return s, true
		}
	}
	if e == error(ers.ErrRecoveredPanic) {
		return "RP", true
	}
	return fmt.Sprintf("?%T(%v)", e, e), false
}

func sameBag(a, b []string) bool {
	if len(a) != len(b) {
		return false
	}
	x := append([]string{}, a...)
	y := append([]string{}, b...)
	sort.Strings(x)
	sort.Strings(y)
	for i := range x {
		if x[i] != y[i] {
			return false
		}
	}
	return true
}

func replayTerm(in input) (res map[string]any) {
	o := in.Beh
	op := o.Term.Op
	bad := func(pred, what string) map[string]any {
		return map[string]any{"n": in.N, "ok": false, "key": "errors/" + op + "/" + pred, "what": what}
	}
	defer func() {
		if r := recover(); r != nil {
			res = bad("panic", fmt.Sprintf("building or observing the term panicked: %v", r))
		}
	}()
	b := &builder{reg: map[error]string{}, annot: map[string]bool{}, probes: map[string]probe{}, operands: map[string]error{}}
	for _, p := range o.Probes {
		b.probes[p.Path] = p
	}
	if len(o.Sched) == 0 {
		o.Sched = []string{"root"}
	}
	// the observation schedule: "probe" = ers.Unwind on every composite operand (before the first "root":
	// while the term is being built, each operand before its parent uses it), "root" = the whole vector
	var r error
	built := false
	roots := 0
	for _, step := range o.Sched {
		switch step {
		case "probe":
			if !built {
				b.early = true
				continue
			}
			for _, path := range b.order {
				b.probeOne(path, "after the result was built and observed")
			}
			if b.fail != "" {
				return bad("operand-unwind-unstable", b.fail)
			}
		case "root":
			if !built {
				r = b.build(o.Term, "r", true)
				built = true
				if b.fail != "" {
					return bad("operand-unwind", b.fail)
				}
			}
			roots++
			if pred, what := observeRoot(b, o, r); pred != "" {
				if roots > 1 {
					what += " (second observation of the same result)"
				}
				return bad(pred, what)
			}
		default:
			panic("unknown schedule step " + step)
		}
	}
	return map[string]any{"n": in.N, "ok": true}
}

// observeRoot compares the whole observation vector of the result; "" = as the spec says.
func observeRoot(b *builder, o obs, r error) (string, string) {
	op := o.Term.Op
	bad := func(pred, what string) (string, string) { return pred, what }
	if (r != nil) != o.NonNil {
		return bad("nil", fmt.Sprintf("result non-nil=%v, spec says %v (result %v)", r != nil, o.NonNil, r))
	}
	if ers.Ok(r) != o.Ok {
		return bad("ok", fmt.Sprintf("ers.Ok(result)=%v, spec says %v", ers.Ok(r), o.Ok))
	}
	for k, exp := range o.Is {
		if got := errors.Is(r, universe[k]); got != exp {
			if exp {
				return bad("is-lost", fmt.Sprintf("errors.Is(result, %s)=false although %s is a constituent", k, k))
			}
			return bad("is-invented", fmt.Sprintf("errors.Is(result, %s)=true although %s was never supplied", k, k))
		}
		if got := ers.Is(r, universe[k]); got != exp {
			return bad("is-ers", fmt.Sprintf("ers.Is(result, %s)=%v, spec %v", k, got, exp))
		}
	}
	{
		var a *typedA
		var bb *typedB
		var c *typedC
		ga, gb, gc := errors.As(r, &a), errors.As(r, &bb), errors.As(r, &c)
		if ga != o.As["t1"] || gb != o.As["t2"] || gc != o.As["t9"] {
			return bad("as", fmt.Sprintf("errors.As found t1=%v t2=%v t9=%v, spec %v", ga, gb, gc, o.As))
		}
		if ga && error(a) != universe["t1"] || gb && error(bb) != universe["t2"] {
			return bad("as", "errors.As produced a value that is not the supplied leaf")
		}
	}
	if !o.Agg {
		return "", ""
	}
	// ---- Unwind
	var exp []string
	for _, g := range o.Groups {
		exp = append(exp, g...)
	}
	un := ers.Unwind(r)
	got := make([]string, len(un))
	known := make([]bool, len(un))
	for i, e := range un {
		got[i], known[i] = b.idOf(e)
	}
	if o.Ident != "" {
		if id, _ := b.idOf(r); id != o.Ident {
			return bad("identity", fmt.Sprintf("the only constituent is %s but the result is %s, not that error itself", o.Ident, id))
		}
	}
	switch {
	case len(exp) == 1 && op != "stack" && op != "coll":
		// the result may be the constituent itself: Unwind then lists it first, followed by
		// what the caller's own error wraps; nothing else may appear
		if len(got) == 0 || got[0] != exp[0] {
			return bad("unwind-bag", fmt.Sprintf("Unwind=%v, the single constituent %s must come first", got, exp[0]))
		}
		for i := 1; i < len(got); i++ {
			if !known[i] || got[i] == exp[0] {
				return bad("unwind-bag", fmt.Sprintf("Unwind=%v lists %s, which is not part of the single constituent %s", got, got[i], exp[0]))
			}
		}
	default:
		if !sameBag(got, exp) {
			return bad("unwind-bag", fmt.Sprintf("Unwind=%v, constituents (most recent first) %v", got, o.Groups))
		}
		pos := 0
		for _, g := range o.Groups {
			if !sameBag(got[pos:pos+len(g)], g) {
				return bad("unwind-order", fmt.Sprintf("Unwind=%v is not most-recent-first for the direct arguments %v", got, o.Groups))
			}
			pos += len(g)
		}
	}
	// ---- Len
	if b.rootSt != nil {
		if n := b.rootSt.Len(); n != o.Count {
			return bad("len", fmt.Sprintf("Stack.Len()=%d, %d constituents", n, o.Count))
		}
		if (b.rootSt.Resolve() == nil) != (o.Count == 0) {
			return bad("nil", fmt.Sprintf("Stack.Resolve() nil=%v with %d constituents", b.rootSt.Resolve() == nil, o.Count))
		}
		n := 0
		prod := b.rootSt.CheckProducer()
		for _, ok := prod(); ok; _, ok = prod() {
			n++
		}
		if n != o.Count {
			return bad("len", fmt.Sprintf("Stack.CheckProducer yields %d errors, %d constituents", n, o.Count))
		}
	}
	if b.rootC != nil {
		if n := b.rootC.Len(); n != o.Count {
			return bad("len", fmt.Sprintf("Collector.Len()=%d, %d constituents", n, o.Count))
		}
		if b.rootC.HasErrors() != (o.Count > 0) || b.rootC.Ok() != (o.Count == 0) {
			return bad("len", "Collector.HasErrors/Ok disagree with the number of constituents")
		}
		it := b.rootC.Iterator()
		var ids []string
		for i := 0; i <= o.Count+1; i++ {
			e, err := it.ReadOne(context.Background())
			if err != nil {
				break
			}
			id, _ := b.idOf(e)
			ids = append(ids, id)
		}
		if !sameBag(ids, exp) {
			return bad("iterator-bag", fmt.Sprintf("Collector.Iterator yields %v, constituents %v", ids, exp))
		}
	}
	return "", ""
}

// ------------------------------------------------------------------ collector scripts / histories

type sop struct {
	Op  string   `json:"op"`
	Arg string   `json:"arg"`
	IDs []string `json:"ids"`
}

type scriptIn struct {
	N   int   `json:"n"`
	Beh []sop `json:"beh"`
}

type leafErr struct{ id string }

func (e *leafErr) Error() string { return e.id }

// composites whose Unwind()/Unwrap() []error parks at a gate: the goroutine that flattens one is
// "descheduled" inside the caller's own method until the driver releases it (hold steps)
type gUnwind struct {
	errs []error
	g    *rt.Gates
}
type gUnwrap struct {
	errs []error
	g    *rt.Gates
}

func (h *gUnwind) Error() string   { return "gated-unwind" }
func (h *gUnwind) Unwind() []error { h.g.Arrive("hold"); return h.errs }
func (h *gUnwrap) Error() string   { return "gated-unwrap" }
func (h *gUnwrap) Unwrap() []error { h.g.Arrive("hold"); return h.errs }

func leaves(ids []string) []error {
	out := make([]error, len(ids))
	for i, id := range ids {
		out[i] = &leafErr{id}
	}
	return out
}

// withHoles: nil, e1, nil, nil, e2, ... (a nil before every element, two before every second)
func withHoles(es []error) []error {
	out := []error{}
	for i, e := range es {
		out = append(out, nil)
		if i%2 == 1 {
			out = append(out, nil)
		}
		out = append(out, e)
	}
	return append(out, nil)
}

// composite builds a composite error of the given kind out of fresh leaves
func composite(kind string, ids []string, g *rt.Gates) error {
	es := leaves(ids)
	switch kind {
	case "join":
		return errors.Join(es...)
	case "fmtw": // several %w: Unwrap() []error (with one %w it would be a singly wrapped error = ONE constituent)
		if len(es) < 2 {
			return errors.Join(es...)
		}
		args := make([]any, len(es))
		for i := range es {
			args[i] = es[i]
		}
		return fmt.Errorf("fmtw"+strings.Repeat(" %w", len(es)), args...)
	case "stack":
		st := &ers.Stack{}
		st.Add(es...)
		return st
	case "hunwind":
		return &hUnwind{"c", withHoles(es)}
	case "hunwrap":
		return &hUnwrap{"c", withHoles(es)}
	case "nested":
		k := len(es) / 2
		return errors.Join(errors.Join(es[:k]...), &hUnwrap{"c", withHoles(es[k:])})
	case "gunwind":
		return &gUnwind{withHoles(es), g}
	case "gunwrap":
		return &gUnwrap{withHoles(es), g}
	}
	panic("unknown composite kind " + kind)
}

func nilStack() error { var st *ers.Stack; return st }

func idsOf(errs []error) []string {
	out := []string{}
	for _, e := range errs {
		if l, ok := e.(*leafErr); ok {
			out = append(out, l.id)
		} else {
			out = append(out, fmt.Sprintf("?%T(%v)", e, e))
		}
	}
	return out
}

func ev(kind string, id int64, op, arg, res string, ids []string) rt.Event {
	if ids == nil {
		ids = []string{}
	}
	return rt.Event{"ev": kind, "id": id, "op": op, "arg": arg, "res": res, "ids": ids}
}

func readRes(it *fun.Iterator[error]) string {
	e, err := it.ReadOne(context.Background())
	if err != nil {
		return "eof"
	}
	return idsOf([]error{e})[0]
}

func final(rec *rt.Recorder, c *erc.Collector, id int64) {
	r := c.Resolve()
	arg := "err"
	if r == nil {
		arg = "nil"
	}
	rec.Log(ev("final", id, "final", arg, strconv.Itoa(c.Len()), idsOf(ers.Unwind(r))))
}

// runScript executes one CollectorStep schedule.  Outside a hold every step runs on the driver
// goroutine; from a "hold" to its "release" every step runs on its own goroutine and the driver waits
// for quiescence (the step returned, or is parked behind the held Add) before it issues the next one.
func runScript(in scriptIn) (out map[string]any) {
	rec := &rt.Recorder{}
	c := &erc.Collector{}
	gates := rt.NewGates()
	var mu sync.Mutex
	its := map[string]*fun.Iterator[error]{}
	var id int64
	held := false
	var pending []*rt.Op
	var panicked atomic.Value

	exec := func(s sop, k int64) {
		defer func() {
			if r := recover(); r != nil {
				panicked.CompareAndSwap(nil, fmt.Sprintf("%s(%s) panicked: %v", s.Op, s.Arg, r))
			}
		}()
		op, arg := s.Op, s.Arg
		if op == "hold" {
			op = "addc"
		}
		rec.Log(ev("call", k, op, arg, "-", s.IDs))
		res := "ok"
		switch s.Op {
		case "add":
			switch s.Arg {
			case "nil":
				c.Add(nil)
			case "nstack":
				if k%2 == 0 {
					c.Add(nilStack())
				} else {
					c.Add(ers.AsStack(nil))
				}
			default:
				c.Add(&leafErr{s.Arg})
			}
		case "addc", "hold":
			c.Add(composite(s.Arg, s.IDs, gates))
		case "len":
			res = strconv.Itoa(c.Len())
		case "resolve":
			if c.Resolve() == nil {
				res = "nil"
			} else {
				res = "err"
			}
		case "open":
			it := c.Iterator()
			mu.Lock()
			its[s.Arg] = it
			mu.Unlock()
		case "read":
			mu.Lock()
			it := its[s.Arg]
			mu.Unlock()
			res = readRes(it)
		default:
			panic("unknown op " + s.Op)
		}
		rec.Log(ev("ret", k, op, arg, res, s.IDs))
	}
	release := func() string {
		gates.Disarm("hold")
		if _, err := rt.Quiesce(); err != nil {
			return "no quiescence after release"
		}
		for _, o := range pending {
			if !o.Done() {
				return "an operation issued during the hold has not returned although the held Add was released"
			}
		}
		pending, held = nil, false
		return ""
	}
	for _, s := range in.Beh {
		if panicked.Load() != nil {
			break
		}
		if s.Op == "release" {
			if msg := release(); msg != "" {
				return map[string]any{"n": in.N, "infra": msg}
			}
			continue
		}
		id++
		if s.Op == "hold" {
			gates.Arm("hold")
			held = true
		}
		if !held {
			exec(s, id)
			continue
		}
		k := id
		pending = append(pending, rt.Start(int(k), func() any { exec(s, k); return nil }))
		if _, err := rt.Quiesce(); err != nil {
			gates.Disarm("hold")
			return map[string]any{"n": in.N, "infra": "no quiescence after issuing " + s.Op}
		}
	}
	if held {
		if msg := release(); msg != "" {
			return map[string]any{"n": in.N, "infra": msg}
		}
	}
	if p := panicked.Load(); p != nil {
		return map[string]any{"n": in.N, "panic": p, "hist": rec.Events()}
	}
	func() {
		defer func() {
			if r := recover(); r != nil {
				out = map[string]any{"n": in.N, "panic": fmt.Sprintf("final observation panicked: %v", r), "hist": rec.Events()}
			}
		}()
		final(rec, c, id+1)
	}()
	if out != nil {
		return out
	}
	return map[string]any{"n": in.N, "hist": rec.Events()}
}

var compKinds = []string{"join", "fmtw", "stack", "hunwind", "hunwrap", "nested"}

// record runs n random concurrent scenarios: several goroutines Add fresh errors / composites of fresh
// errors / nil / a nil *ers.Stack, call Len, Resolve, and open, read and drain iterators while the others
// keep adding.
func record(n int, seed int64, burst bool) {
	rng := rand.New(rand.NewSource(seed))
	for i := 0; i < n; i++ {
		runtime.GOMAXPROCS(1 + rng.Intn(8))
		rec := &rt.Recorder{}
		c := &erc.Collector{}
		var id, fresh atomic.Int64
		var sw sync.WaitGroup
		var panicked atomic.Value
		start := make(chan struct{})
		nthreads := 2 + rng.Intn(3)
		for t := 0; t < nthreads; t++ {
			r := rand.New(rand.NewSource(rng.Int63()))
			tn := "g" + strconv.Itoa(t)
			sw.Add(1)
			go func() {
				defer sw.Done()
				defer func() {
					if p := recover(); p != nil {
						panicked.CompareAndSwap(nil, fmt.Sprintf("a Collector operation panicked: %v", p))
					}
				}()
				<-start
				var it *fun.Iterator[error]
				hname := ""
				nops := 3 + r.Intn(6)
				for j := 0; j < nops; j++ {
					k := id.Add(1)
					switch x := r.Intn(12); {
					case x < 3:
						arg := "e" + strconv.FormatInt(fresh.Add(1), 10)
						rec.Log(ev("call", k, "add", arg, "-", nil))
						c.Add(&leafErr{arg})
						rec.Log(ev("ret", k, "add", arg, "ok", nil))
					case x < 5:
						kind := compKinds[r.Intn(len(compKinds))]
						ids := []string{}
						for m := r.Intn(4); m > 0; m-- {
							ids = append(ids, "e"+strconv.FormatInt(fresh.Add(1), 10))
						}
						e := composite(kind, ids, nil)
						rec.Log(ev("call", k, "addc", kind, "-", ids))
						c.Add(e)
						rec.Log(ev("ret", k, "addc", kind, "ok", ids))
					case x < 6:
						arg, e := "nil", error(nil)
						if r.Intn(2) == 0 {
							arg, e = "nstack", nilStack()
						}
						rec.Log(ev("call", k, "add", arg, "-", nil))
						c.Add(e)
						rec.Log(ev("ret", k, "add", arg, "ok", nil))
					case x < 7:
						rec.Log(ev("call", k, "len", "-", "-", nil))
						v := c.Len()
						rec.Log(ev("ret", k, "len", "-", strconv.Itoa(v), nil))
					case x < 8:
						rec.Log(ev("call", k, "resolve", "-", "-", nil))
						res := "err"
						if c.Resolve() == nil {
							res = "nil"
						}
						rec.Log(ev("ret", k, "resolve", "-", res, nil))
					case x < 9:
						h := tn + "i" + strconv.Itoa(j)
						rec.Log(ev("call", k, "iter", h, "-", nil))
						d := c.Iterator()
						var got []error
						for len(got) < 64 {
							e, err := d.ReadOne(context.Background())
							if err != nil {
								break
							}
							got = append(got, e)
							if r.Intn(2) == 0 {
								runtime.Gosched()
							}
						}
						rec.Log(ev("ret", k, "iter", h, "ok", idsOf(got)))
					case x < 10 || it == nil:
						hname = tn + "h" + strconv.Itoa(j)
						rec.Log(ev("call", k, "open", hname, "-", nil))
						it = c.Iterator()
						rec.Log(ev("ret", k, "open", hname, "ok", nil))
					default:
						rec.Log(ev("call", k, "read", hname, "-", nil))
						res := readRes(it)
						rec.Log(ev("ret", k, "read", hname, res, nil))
					}
					if r.Intn(3) == 0 {
						runtime.Gosched()
					}
				}
			}()
		}
		close(start)
		sw.Wait()
		if p := panicked.Load(); p != nil {
			rt.Emit(map[string]any{"panic": p, "hist": rec.Events()})
			continue
		}
		if burst {
			doBurst(rec, c, &id, &fresh)
		}
		final(rec, c, id.Add(1))
		rt.Emit(map[string]any{"hist": rec.Events()})
	}
}

// doBurst: many Adds at the same time, nothing else running; every fourth Add is a composite of two
// fresh errors (the kinds take turns).  One call event (all ids) is logged before
// the first Add starts and one ret event after the last returned, so the recorder's own lock does not
// serialise the Adds; the workers leave a spin barrier together so that they really overlap.
func doBurst(rec *rt.Recorder, c *erc.Collector, id, fresh *atomic.Int64) {
	old := runtime.GOMAXPROCS(8)
	defer runtime.GOMAXPROCS(old)
	const workers, each = 4, 300
	var ids []string
	errs := make([][]error, workers)
	for w := 0; w < workers; w++ {
		for j := 0; j < each; j++ {
			arg := "e" + strconv.FormatInt(fresh.Add(1), 10)
			ids = append(ids, arg)
			if j%4 != 1 {
				errs[w] = append(errs[w], &leafErr{arg})
				continue
			}
			arg2 := "e" + strconv.FormatInt(fresh.Add(1), 10)
			ids = append(ids, arg2)
			errs[w] = append(errs[w], composite(compKinds[(j/4)%len(compKinds)], []string{arg, arg2}, nil))
		}
	}
	k := id.Add(1)
	rec.Log(ev("call", k, "burst", "-", "-", ids))
	var ready atomic.Int64
	var bw sync.WaitGroup
	for w := 0; w < workers; w++ {
		bw.Add(1)
		go func(mine []error) {
			defer bw.Done()
			ready.Add(1)
			for spin := 0; ready.Load() < workers && spin < 1<<22; spin++ {
			}
			for _, e := range mine {
				c.Add(e)
			}
		}(errs[w])
	}
	bw.Wait()
	rec.Log(ev("ret", k, "burst", "-", "ok", ids))
}

func main() {
	if len(os.Args) < 2 {
		fmt.Fprintln(os.Stderr, "usage: vh-errors replay|script|record")
		os.Exit(2)
	}
	switch os.Args[1] {
	case "replay":
		rt.ReadLines(func(_ int, raw json.RawMessage) {
			var in input
			if err := json.Unmarshal(raw, &in); err != nil {
				panic(err)
			}
			rt.Emit(map[string]any{"begin": in.N})
			rt.Flush()
			rt.Emit(replayTerm(in))
			rt.Flush()
		})
	case "script":
		rt.ReadLines(func(_ int, raw json.RawMessage) {
			var in scriptIn
			if err := json.Unmarshal(raw, &in); err != nil {
				panic(err)
			}
			rt.Emit(runScript(in))
		})
	case "record":
		n, _ := strconv.Atoi(os.Args[2])
		seed, _ := strconv.Atoi(os.Args[3])
		record(n, int64(seed), len(os.Args) > 4 && os.Args[4] == "burst")
	default:
		fmt.Fprintln(os.Stderr, "unknown mode "+strings.Join(os.Args[1:], " "))
		os.Exit(2)
	}
	rt.Flush()
}
