package main

import (
	"encoding/json"
	"fmt"
	"strconv"

	"github.com/tychoish/fun"
	"github.com/tychoish/fun/adt"
)

// ------------------------------------------------------------------ Atomic

// countAtomic lets adt.Reset run on a real *adt.Atomic[int] while counting the iterations of its loop.  In a
// single-goroutine replay an iteration that leaves the atomic unchanged is followed by an identical one, so a
// loop that is still running after spinLimit loads never ends: a resource criterion, not a wall-clock one.
type countAtomic struct {
	inner *adt.Atomic[int]
	loads int
}

const spinLimit = 10000

type spinning struct{}

func (c *countAtomic) Load() int {
	c.loads++
	if c.loads > spinLimit {
		panic(spinning{})
	}
	return c.inner.Load()
}
func (c *countAtomic) Store(v int)    { c.inner.Store(v) }
func (c *countAtomic) Swap(v int) int { return c.inner.Swap(v) }
func (c *countAtomic) CompareAndSwap(a, b int) bool {
	return adt.CompareAndSwap[int](c.inner, a, b)
}

func resetCounting(a *adt.Atomic[int]) (res string) {
	defer func() {
		if r := recover(); r != nil {
			if _, ok := r.(spinning); ok {
				res = "spin"
				return
			}
			panic(r)
		}
	}()
	return strconv.Itoa(adt.Reset[int, *countAtomic](&countAtomic{inner: a}))
}

var opName = map[string]string{"get": "Get", "load": "Load", "set": "Set", "store": "Store", "swap": "Swap",
	"cas": "CompareAndSwap", "safeset": "SafeSet", "reset": "Reset", "with": "With", "using": "Using", "string": "String",
	"accget": "Getter", "accset": "Setter"}

type regState struct {
	Get int    `json:"get"`
	Str string `json:"str"`
	Acc int    `json:"acc"`
}

type atomicSub struct{ a *adt.Atomic[int] }

func (x *atomicSub) check(op string, raw json.RawMessage) *verdict {
	var st regState
	if err := json.Unmarshal(raw, &st); err != nil {
		return bad("adt/harness/state", "%v", err)
	}
	if g, l := x.a.Get(), x.a.Load(); g != st.Get || l != st.Get {
		return bad("adt/Atomic."+opName[op]+"/state", "afterwards Get()=%d Load()=%d, spec %d", g, l, st.Get)
	}
	return nil
}

func (x *atomicSub) init(s step) *verdict {
	if s.Set == "true" {
		x.a = adt.NewAtomic(s.V)
	} else {
		x.a = &adt.Atomic[int]{}
	}
	return x.check("new", s.St)
}

func (x *atomicSub) do(_, _ int, s step) *verdict {
	ret := "-"
	switch s.Op {
	case "get":
		ret = strconv.Itoa(x.a.Get())
	case "load":
		ret = strconv.Itoa(x.a.Load())
	case "set":
		x.a.Set(s.V)
	case "store":
		x.a.Store(s.V)
	case "swap":
		ret = strconv.Itoa(x.a.Swap(s.V))
	case "cas":
		ret = bstr(adt.CompareAndSwap[int](x.a, s.O, s.V))
	case "safeset":
		adt.SafeSet[int](x.a, s.V)
	case "reset":
		ret = resetCounting(x.a)
	default:
		return bad("adt/harness/unknown-op", "atomic %s", s.Op)
	}
	if ret != s.Ret {
		return bad("adt/Atomic."+opName[s.Op]+"/ret", "%s(%s) returned %s, spec %s", opName[s.Op], args(s), ret, s.Ret)
	}
	return x.check(s.Op, s.St)
}

func args(s step) string {
	switch s.Op {
	case "cas":
		return fmt.Sprintf("%d, %d", s.O, s.V)
	case "set", "store", "swap", "safeset":
		return strconv.Itoa(s.V)
	}
	return ""
}

// ------------------------------------------------------------------ Synchronized

type syncSub struct {
	s      *adt.Synchronized[int]
	cell   int // the client's variable behind the accessor pair
	getter fun.Future[int]
	setter fun.Handler[int]
}

func (x *syncSub) check(op string, raw json.RawMessage) *verdict {
	var st regState
	if err := json.Unmarshal(raw, &st); err != nil {
		return bad("adt/harness/state", "%v", err)
	}
	if g, l, str := x.s.Get(), x.s.Load(), x.s.String(); g != st.Get || l != st.Get || str != st.Str {
		return bad("adt/Synchronized."+opName[op]+"/state", "afterwards Get()=%d Load()=%d String()=%q, spec %d", g, l, str, st.Get)
	}
	if a := x.getter(); a != st.Acc || x.cell != st.Acc {
		return bad("adt/Accessors."+opName[op]+"/state", "afterwards the getter returns %d (variable %d), spec %d", a, x.cell, st.Acc)
	}
	return nil
}

func (x *syncSub) init(s step) *verdict {
	if s.V == 0 {
		x.s = &adt.Synchronized[int]{}
	} else {
		x.s = adt.NewSynchronized(s.V)
	}
	get, set := fun.Future[int](func() int { return x.cell }), fun.Handler[int](func(v int) { x.cell = v })
	if s.V%2 == 0 {
		x.getter, x.setter = adt.AccessorsWithLock(get, set)
	} else {
		x.getter, x.setter = adt.AccessorsWithReadLock(get, set)
	}
	return x.check("new", s.St)
}

func (x *syncSub) do(_, _ int, s step) *verdict {
	ret := "-"
	switch s.Op {
	case "get":
		ret = strconv.Itoa(x.s.Get())
	case "load":
		ret = strconv.Itoa(x.s.Load())
	case "string":
		ret = x.s.String()
	case "with":
		calls := 0
		x.s.With(func(v int) { calls++; ret = strconv.Itoa(v) })
		if calls != 1 {
			return bad("adt/Synchronized.With/calls", "the function ran %d times", calls)
		}
	case "using":
		calls := 0
		x.s.Using(func() { calls++ })
		if calls != 1 {
			return bad("adt/Synchronized.Using/calls", "the function ran %d times", calls)
		}
	case "set":
		x.s.Set(s.V)
	case "store":
		x.s.Store(s.V)
	case "swap":
		ret = strconv.Itoa(x.s.Swap(s.V))
	case "cas":
		ret = bstr(adt.CompareAndSwap[int](x.s, s.O, s.V))
	case "safeset":
		adt.SafeSet[int](x.s, s.V)
	case "reset":
		ret = strconv.Itoa(adt.Reset[int](x.s))
	case "accget":
		ret = strconv.Itoa(x.getter())
	case "accset":
		x.setter(s.V)
	default:
		return bad("adt/harness/unknown-op", "sync %s", s.Op)
	}
	if ret != s.Ret {
		return bad("adt/Synchronized."+opName[s.Op]+"/ret", "%s(%s) returned %s, spec %s", opName[s.Op], args(s), ret, s.Ret)
	}
	return x.check(s.Op, s.St)
}

// ------------------------------------------------------------------ Once, Mnemonize

type onceState struct {
	Called  bool   `json:"called"`
	Defined bool   `json:"defined"`
	Val     string `json:"val"`
	Mval    string `json:"mval"`
}

type boom struct{}

type onceSub struct {
	o    *adt.Once[int]
	mn   func() int
	runs []string
}

// fn returns the user function named f: "f<v>" returns v, "fp" panics, "nil" is a nil function.
func (x *onceSub) fn(f string) func() int {
	switch f {
	case "nil", "none":
		return nil
	case "fp":
		return func() int { x.runs = append(x.runs, f); panic(boom{}) }
	}
	v, _ := strconv.Atoi(f[1:])
	return func() int { x.runs = append(x.runs, f); return v }
}

// call runs op; a panic with our own value is the expected way "fp" surfaces.
func call(op func()) (res string) {
	defer func() {
		if r := recover(); r != nil {
			if _, ok := r.(boom); ok {
				res = "panic"
				return
			}
			panic(r)
		}
	}()
	op()
	return "-"
}

func (x *onceSub) check(op string, raw json.RawMessage) *verdict {
	var st onceState
	if err := json.Unmarshal(raw, &st); err != nil {
		return bad("adt/harness/state", "%v", err)
	}
	if c, d := x.o.Called(), x.o.Defined(); c != st.Called || d != st.Defined {
		return bad("adt/Once."+op+"/flags", "afterwards Called()=%v Defined()=%v, spec %v %v", c, d, st.Called, st.Defined)
	}
	x.runs = nil
	if st.Val != "-" {
		// the operation has completed: Resolve returns the cached value and runs nothing
		if v := strconv.Itoa(x.o.Resolve()); v != st.Val || len(x.runs) != 0 {
			return bad("adt/Once."+op+"/cached-value", "afterwards Resolve()=%s (ran %v), spec %s", v, x.runs, st.Val)
		}
	}
	if st.Mval != "-" {
		if v := strconv.Itoa(x.mn()); v != st.Mval || len(x.runs) != 0 {
			return bad("adt/Mnemonize/cached-value", "afterwards the mnemonized function returns %s (ran %v), spec %s", v, x.runs, st.Mval)
		}
	}
	return nil
}

func (x *onceSub) init(s step) *verdict {
	if s.F == "none" {
		x.o = &adt.Once[int]{}
	} else {
		x.o = adt.NewOnce(x.fn(s.F))
	}
	x.mn = adt.Mnemonize(x.fn("f1"))
	return x.check("New", s.St)
}

func (x *onceSub) do(_, _ int, s step) *verdict {
	x.runs = nil
	ret := "-"
	name := map[string]string{"do": "Do", "resolve": "Resolve", "set": "Set", "called": "Called", "defined": "Defined", "mnemo": "Mnemonize"}[s.Op]
	switch s.Op {
	case "do":
		ret = call(func() { x.o.Do(x.fn(s.F)) })
	case "resolve":
		var v int
		if ret = call(func() { v = x.o.Resolve() }); ret == "-" {
			ret = strconv.Itoa(v)
		}
	case "set":
		x.o.Set(x.fn(s.F))
	case "called":
		ret = bstr(x.o.Called())
	case "defined":
		ret = bstr(x.o.Defined())
	case "mnemo":
		ret = strconv.Itoa(x.mn())
	default:
		return bad("adt/harness/unknown-op", "once %s", s.Op)
	}
	if !sameStrings(x.runs, s.Ran) {
		return bad("adt/Once."+name+"/executions", "%s(%s) ran %v, spec %v", name, s.F, x.runs, s.Ran)
	}
	if ret != s.Ret {
		return bad("adt/Once."+name+"/ret", "%s(%s) returned %s, spec %s", name, s.F, ret, s.Ret)
	}
	return x.check(name, s.St)
}
