// vh-adt binds spec/adt to package adt of tychoish/fun (check X02: growth of the specification).
//
//	vh-adt replay   < behaviours.ndjson    replay AdtSeq behaviours on the real types, comparison after every call
//	vh-adt record N SEED [KIND...]         concurrent call/return histories for AdtLinTrace
//
// replay protocol: one {"n":i,"beh":[step...]} per line; prints {"begin":i} (flushed) before a behaviour, a flushed
// {"n":i,"risk":j,"op":..} before a step the spec marks as able to end the process, and finally
// {"n":i,"ok":bool,"key":..,"what":..,"step":j,"truncated":bool}.  Expectations are the fields TLC printed; this
// program only executes and compares.  "truncated": the real outcome is allowed by the spec (it is in the printed
// set of allowed outcomes) but is not the branch this behaviour continues with - a sibling behaviour has it.
package main

import (
	"bufio"
	"bytes"
	"encoding/json"
	"fmt"
	"io"
	"os"
	"os/exec"
	"runtime"
	"runtime/debug"
	"strconv"

	"verif/harness/rt"
)

type desc struct {
	ID int    `json:"id"`
	Cl int    `json:"cl"`
	By string `json:"by"`
	Hk string `json:"hk"`
}

type pair struct {
	K  string `json:"k"`
	ID int    `json:"id"`
}

type step struct {
	Op      string          `json:"op"`
	Comp    string          `json:"comp"`
	Kind    string          `json:"kind"`
	K       string          `json:"k"`
	V       int             `json:"v"`
	O       int             `json:"o"`
	F       string          `json:"f"`
	X       int             `json:"x"`
	Set     string          `json:"set"`
	Ret     string          `json:"ret"`
	Ran     []string        `json:"ran"`
	Calls   int             `json:"calls"`
	Present string          `json:"present"`
	Crash   string          `json:"crash"`
	Amb     string          `json:"amb"`
	Grow    string          `json:"grow"`
	Dup     string          `json:"dup"`
	Ev      []string        `json:"ev"`
	Evs     [][]string      `json:"evs"`
	Evset   []string        `json:"evset"`
	Allow   []desc          `json:"allow"`
	Pick    *desc           `json:"pick"`
	After   *desc           `json:"after"`
	Pairs   []pair          `json:"pairs"`
	Ks      []string        `json:"ks"`
	Keys    []string        `json:"keys"`
	Vals    []int           `json:"vals"`
	St      json.RawMessage `json:"st"`
}

type input struct {
	N   int    `json:"n"`
	Beh []step `json:"beh"`
}

type result struct {
	N         int    `json:"n"`
	Ok        bool   `json:"ok"`
	Key       string `json:"key,omitempty"`
	What      string `json:"what,omitempty"`
	Step      int    `json:"step,omitempty"`
	Truncated bool   `json:"truncated,omitempty"`
	Steps     int    `json:"steps"`
}

// verdict of one step
type verdict struct {
	key, what string
	truncated bool
}

func bad(key, format string, a ...any) *verdict {
	return &verdict{key: key, what: fmt.Sprintf(format, a...)}
}

var trunc = &verdict{truncated: true}

// subject is one component under replay.
type subject interface {
	init(first step) *verdict
	do(n, j int, s step) *verdict
}

func main() {
	if len(os.Args) < 2 {
		fmt.Fprintln(os.Stderr, "usage: vh-adt replay|record")
		os.Exit(2)
	}
	switch os.Args[1] {
	case "replay":
		supervise()
	case "worker":
		// garbage collection happens only in the explicit gc steps: finalizers (Pool.Make) then run at known points
		debug.SetGCPercent(-1)
		// one P: a sync.Pool then returns what this goroutine (or a finalizer) put, and a collection is cheap
		runtime.GOMAXPROCS(1)
		rt.ReadLines(func(_ int, raw json.RawMessage) {
			var in input
			if err := json.Unmarshal(raw, &in); err != nil {
				panic(err)
			}
			rt.Emit(replay(in))
			rt.Flush()
			if in.N%64 == 0 {
				collect() // the heap of the finished behaviours
			}
		})
	case "probe":
		probe()
	case "record":
		n, _ := strconv.Atoi(os.Args[2])
		seed, _ := strconv.Atoi(os.Args[3])
		record(n, int64(seed), os.Args[4:])
	default:
		fmt.Fprintln(os.Stderr, "unknown mode", os.Args[1])
		os.Exit(2)
	}
	rt.Flush()
}

// ------------------------------------------------------------------ supervisor

// supervise feeds the behaviours one at a time to a child process (vh-adt worker).  A behaviour can end the process
// (a fatal runtime error inside the library is not recoverable); the supervisor then reports
// {"n":i,"crashed":true,"risk":step,"op":..,"stderr":tail} for that behaviour and continues with a new child.
type child struct {
	cmd *exec.Cmd
	in  io.WriteCloser
	out *bufio.Scanner
	err *bytes.Buffer
}

func startChild() *child {
	cmd := exec.Command(os.Args[0], "worker")
	c := &child{cmd: cmd, err: &bytes.Buffer{}}
	cmd.Stderr = c.err
	c.in, _ = cmd.StdinPipe()
	out, _ := cmd.StdoutPipe()
	if err := cmd.Start(); err != nil {
		panic(err)
	}
	c.out = bufio.NewScanner(out)
	c.out.Buffer(make([]byte, 1<<20), 1<<28)
	return c
}

func (c *child) stop() { c.in.Close(); _ = c.cmd.Wait() }

func supervise() {
	var c *child
	rt.ReadLines(func(_ int, raw json.RawMessage) {
		var hd struct {
			N int `json:"n"`
		}
		_ = json.Unmarshal(raw, &hd)
		rt.Emit(map[string]any{"begin": hd.N})
		if c == nil {
			c = startChild()
		}
		risk := map[string]any{}
		_, werr := c.in.Write(append(raw, '\n'))
		for werr == nil && c.out.Scan() {
			var line map[string]any
			if json.Unmarshal(c.out.Bytes(), &line) != nil {
				continue
			}
			if _, isRisk := line["risk"]; isRisk {
				risk = line
				continue
			}
			rt.Emit(line)
			return
		}
		// the worker died on this behaviour
		c.stop()
		tail := c.err.String()
		if len(tail) > 6000 {
			tail = tail[:3000] + "\n...\n" + tail[len(tail)-3000:]
		}
		rt.Emit(map[string]any{"n": hd.N, "ok": false, "crashed": true, "risk": risk["risk"], "op": risk["op"], "comp": risk["comp"], "stderr": tail})
		c = nil
	})
	if c != nil {
		c.stop()
	}
}

func replay(in input) (res result) {
	res = result{N: in.N, Ok: true, Steps: len(in.Beh)}
	if len(in.Beh) == 0 {
		return
	}
	var sub subject
	switch in.Beh[0].Comp {
	case "atomic":
		sub = &atomicSub{}
	case "sync":
		sub = &syncSub{}
	case "once":
		sub = &onceSub{}
	case "map":
		sub = &mapSub{}
	case "pool":
		sub = &poolSub{}
	case "vpool":
		sub = &vpoolSub{}
	default:
		return result{N: in.N, Ok: false, Key: "adt/harness/unknown-component", What: in.Beh[0].Comp}
	}
	fail := func(j int, v *verdict) result {
		return result{N: in.N, Ok: false, Key: v.key, What: fmt.Sprintf("step %d (%s): %s", j, in.Beh[j].Op, v.what), Step: j, Steps: len(in.Beh)}
	}
	if v := guard("init", func() *verdict { return sub.init(in.Beh[0]) }); v != nil {
		return fail(0, v)
	}
	for j := 1; j < len(in.Beh); j++ {
		s := in.Beh[j]
		if s.Crash == "yes" {
			rt.Emit(map[string]any{"n": in.N, "risk": j, "op": s.Op, "comp": in.Beh[0].Comp})
			rt.Flush()
		}
		v := guard(s.Op, func() *verdict { return sub.do(in.N, j, s) })
		if v == nil {
			if s.Amb == "true" {
				res.Truncated, res.Step = true, j
				return
			}
			continue
		}
		if v.truncated {
			res.Truncated, res.Step = true, j
			return
		}
		return fail(j, v)
	}
	return
}

// guard turns a panic that escaped a step (every expected panic is caught where the call is made) into a verdict.
func guard(op string, f func() *verdict) (v *verdict) {
	defer func() {
		if r := recover(); r != nil {
			v = bad("adt/"+op+"/unexpected-panic", "panic: %v\n%s", r, debug.Stack())
		}
	}()
	return f()
}

func bstr(b bool) string {
	if b {
		return "true"
	}
	return "false"
}

func sameStrings(a, b []string) bool {
	if len(a) != len(b) {
		return false
	}
	for i := range a {
		if a[i] != b[i] {
			return false
		}
	}
	return true
}
