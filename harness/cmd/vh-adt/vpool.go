package main

import (
	"bytes"
	"encoding/binary"

	"github.com/tychoish/fun/adt"
	"github.com/tychoish/fun/dt"
)

// ------------------------------------------------------------------ pools of value-typed items

const (
	vMin = 16 // MakeBufferPool(min, max), MakeBytesBufferPool(capacity), the custom slice constructor
	vMax = 64
)

type vpoolSub struct {
	kind  string
	sp    *adt.Pool[dt.Slice[byte]]
	bp    *adt.Pool[*bytes.Buffer]
	seen  int
	held  map[int][]byte
	heldB map[int]*bytes.Buffer
	last  []byte
	lastB *bytes.Buffer
}

func (x *vpoolSub) init(s step) *verdict {
	x.kind = s.Kind
	x.held = map[int][]byte{}
	x.heldB = map[int]*bytes.Buffer{}
	switch s.Kind {
	case "slice":
		x.sp = &adt.Pool[dt.Slice[byte]]{}
		x.sp.SetConstructor(func() dt.Slice[byte] { return make([]byte, 0, vMin) })
		x.sp.SetCleanupHook(func(b dt.Slice[byte]) dt.Slice[byte] { return b[:0] })
	case "bufpool":
		x.sp = adt.MakeBufferPool(vMin, vMax)
	case "bytesbuf":
		x.bp = adt.MakeBytesBufferPool(vMin)
	default:
		return bad("adt/harness/unknown-kind", "%s", s.Kind)
	}
	return nil
}

// ident reads the identity of a backing array (the first 8 bytes of its capacity hold the number the harness gave
// it; a new array from make() is zeroed) and numbers an array it has not seen.
func (x *vpoolSub) ident(m []byte) (id int, fresh bool) {
	id = int(binary.LittleEndian.Uint64(m))
	if id == 0 {
		x.seen++
		id = 100 + x.seen
		binary.LittleEndian.PutUint64(m, uint64(id))
		return id, true
	}
	return id, false
}

func (x *vpoolSub) name() string {
	return map[string]string{"slice": "ValuePool", "bufpool": "BufferPool", "bytesbuf": "BytesBufferPool"}[x.kind]
}

// take obtains a value from the pool, checks its documented form and identifies its backing array.
//
//go:noinline
func (x *vpoolSub) take(key string, mk bool) (d desc, fresh bool, v *verdict) {
	if x.kind == "bytesbuf" {
		b := x.bp.Get()
		if b == nil {
			return d, false, bad(key+"/nil", "Get returned a nil *bytes.Buffer")
		}
		if b.Len() != 0 {
			return d, false, bad(key+"/not-reset", "Get returned a buffer holding %d bytes (\"Buffers are always reset before reentering the pool\")", b.Len())
		}
		if b.Cap() < vMin {
			return d, false, bad(key+"/below-min-capacity", "Get returned a buffer of capacity %d; documented: pre-allocated with capacity %d", b.Cap(), vMin)
		}
		id, fr := x.ident(b.AvailableBuffer()[:8])
		x.lastB = b
		return desc{ID: id, By: "arr", Hk: "-"}, fr, nil
	}
	var sl dt.Slice[byte]
	if mk {
		sl = x.sp.Make()
	} else {
		sl = x.sp.Get()
	}
	if len(sl) != 0 {
		return d, false, bad(key+"/not-resliced", "got a slice of length %d (\"always resliced to be 0 length before reentering the pool\")", len(sl))
	}
	if cap(sl) == 0 {
		return desc{ID: 0, By: "-", Hk: "-"}, false, nil
	}
	if cap(sl) < vMin {
		return d, false, bad(key+"/below-min-capacity", "got a slice of capacity %d, minimum %d", cap(sl), vMin)
	}
	id, fr := x.ident(sl[:8])
	x.last = sl
	return desc{ID: id, By: "arr", Hk: "-"}, fr, nil
}

func (x *vpoolSub) keep(id int) {
	if id != 0 {
		if x.kind == "bytesbuf" {
			x.heldB[id] = x.lastB
		} else {
			x.held[id] = x.last
		}
	}
	x.last, x.lastB = nil, nil
}

//go:noinline
func (x *vpoolSub) put(id int, over bool) {
	if x.kind == "bytesbuf" {
		b := x.heldB[id]
		delete(x.heldB, id)
		x.bp.Put(b)
		return
	}
	s := x.held[id]
	delete(x.held, id)
	if over {
		s = append(s[:0], make([]byte, vMax+36)...) // grows into a new, larger array
	}
	x.sp.Put(s)
}

func (x *vpoolSub) do(_, _ int, s step) *verdict {
	key := "adt/" + x.name()
	switch s.Op {
	case "get", "make":
		key += map[string]string{"get": ".Get", "make": ".Make"}[s.Op]
		d, fresh, v := x.take(key, s.Op == "make")
		if v != nil {
			return v
		}
		_, dup := x.held[d.ID]
		dup = dup || x.heldB[d.ID] != nil
		if d.ID != 0 && !fresh && !inAllow(d, s.Allow) {
			if dup {
				return bad(key+"/handout-not-allowed", "the pool handed out backing array %d, which the client got earlier and still uses", d.ID)
			}
			return bad(key+"/handout-not-allowed", "the pool handed out backing array %d, which cannot have re-entered the pool (spec allows %+v)", d.ID, s.Allow)
		}
		if d.ID == 0 && !inAllow(d, s.Allow) {
			return bad(key+"/below-min-capacity", "Get returned a nil slice (capacity 0); the documented minimum capacity is %d", vMin)
		}
		v = judgeTake(key, s, &d, nil, fresh)
		if v == nil {
			x.keep(d.ID)
		}
		return v
	case "put":
		x.put(s.X, s.Grow == "over")
	case "drop":
		delete(x.held, s.X)
		delete(x.heldB, s.X)
	case "gc":
		x.last, x.lastB = nil, nil
		collect()
	default:
		return bad("adt/harness/unknown-op", "vpool %s", s.Op)
	}
	return nil
}
