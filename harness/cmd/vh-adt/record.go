package main

import (
	"encoding/json"
	"fmt"
	"math/rand"
	"runtime"
	"strconv"
	"sync"
	"sync/atomic"

	"github.com/tychoish/fun"
	"github.com/tychoish/fun/adt"
	"verif/harness/rt"
)

// record runs n random concurrent trials per requested kind (map, atomic, sync, once, onceduel, casduel) and prints
// the DISTINCT histories, each once with the number of trials that produced it: {"hist":[events],"count":c,"kind":k}.
// Two trials with the same event sequence (sequence numbers aside) get the same verdict from AdtLinTrace, so only
// one of them has to be validated; this is what makes hundreds of thousands of short "duel" trials affordable.
//
// Events: config / call / ret / visit (inside a Range callback) / fn (inside a function handed to a Once) / final.
// Every field has one JSON type everywhere (k, f, op, res: string; v, o, n, id: int).
func record(n int, seed int64, kinds []string) {
	if len(kinds) == 0 {
		kinds = []string{"map", "atomic", "sync", "once"}
	}
	rng := rand.New(rand.NewSource(seed))
	for _, kind := range kinds {
		seen := map[string]int{}
		var order []string
		trials := n
		switch kind {
		case "onceduel", "casduel":
			trials = n * 200
		case "mapduel":
			trials = n * 60
		case "rangeduel":
			trials = n * 8
		}
		for i := 0; i < trials; i++ {
			evs := trial(kind, rng)
			b, _ := json.Marshal(evs)
			k := string(b)
			if seen[k] == 0 {
				order = append(order, k)
			}
			seen[k]++
		}
		for _, k := range order {
			rt.Emit(map[string]any{"hist": json.RawMessage(k), "count": seen[k], "kind": kind})
		}
		rt.Emit(map[string]any{"kind": kind, "trials": trials, "distinct": len(order)})
	}
}

type opcall struct {
	op   string
	k, f string
	v, o int
}

type log struct {
	mu  sync.Mutex
	evs []map[string]any
}

func (l *log) add(ev map[string]any) {
	l.mu.Lock()
	l.evs = append(l.evs, ev)
	l.mu.Unlock()
}

var keyNames = []string{"a", "b", "c"}

// accReg presents an accessor pair as a register (Swap is never used on it)
type accReg struct {
	get fun.Future[int]
	set fun.Handler[int]
}

func (r accReg) Load() int    { return r.get() }
func (r accReg) Store(v int)  { r.set(v) }
func (r accReg) Swap(int) int { panic("not used") }

var curProcs = -1
var procsFor, nextProcs int

// trial builds one object, lets `callers` goroutines issue `rounds` operations each, and returns the history.
func trial(kind string, rng *rand.Rand) []map[string]any {
	lg := &log{}
	var ids atomic.Int64
	callers, rounds := 2+rng.Intn(3), 1+rng.Intn(4)
	barrier := rng.Intn(4) != 0
	// the number of Ps changes every 64 trials
	if procsFor%64 == 0 || curProcs < 0 {
		nextProcs = 2 + rng.Intn(4)
	}
	procsFor++
	procs := nextProcs
	var exec func(c opcall, id int64) string
	var final func() map[string]any
	var gen func(r *rand.Rand, t, j int) opcall

	var prologue []opcall
	switch kind {
	case "map", "rangeduel", "mapduel":
		m := &adt.Map[string, int]{}
		dflt := 90 + rng.Intn(5)
		m.Default.SetConstructor(func() int { return dflt })
		nk := 1 + rng.Intn(3)
		lg.add(map[string]any{"ev": "config", "kind": "map", "v": dflt, "set": 0, "f": "none"})
		ops := []string{"store", "store", "delete", "delete", "load", "check", "ensurestore", "swap", "get", "ensuredefault", "len", "range", "range"}
		gen = func(r *rand.Rand, t, j int) opcall {
			return opcall{op: ops[r.Intn(len(ops))], k: keyNames[r.Intn(nk)], v: 10*(t+1) + j + 1}
		}
		if kind == "mapduel" {
			// everybody claims the same key at the same moment: EnsureStore lets exactly one win, Swap / Get / Delete
			// must fit in between
			nk, callers, rounds, barrier = 1, 2+rng.Intn(3), 1, true
			if rng.Intn(3) == 0 {
				prologue = append(prologue, opcall{op: "store", k: "a", v: 5})
				prologue = append(prologue, opcall{op: "delete", k: "a"})
			}
			duel := []string{"ensurestore", "ensurestore", "ensurestore", "swap", "get", "delete", "ensuredefault"}
			gen = func(r *rand.Rand, t, j int) opcall {
				return opcall{op: duel[r.Intn(len(duel))], k: "a", v: 10*(t+1) + j + 1}
			}
		}
		if kind == "rangeduel" {
			// a populated map; one goroutine traverses it (Range or Len) while the others store, swap and delete
			nk, callers, rounds, barrier = 3, 2+rng.Intn(2), 1+rng.Intn(2), true
			for i := 0; i < 2+rng.Intn(2); i++ {
				prologue = append(prologue, opcall{op: "store", k: keyNames[i], v: 5 + i})
			}
			mut := []string{"store", "store", "delete", "swap", "ensurestore", "get"}
			gen = func(r *rand.Rand, t, j int) opcall {
				if t == 0 {
					return opcall{op: []string{"range", "range", "len"}[r.Intn(3)]}
				}
				return opcall{op: mut[r.Intn(len(mut))], k: keyNames[r.Intn(nk)], v: 10*(t+1) + j + 1}
			}
		}
		exec = func(c opcall, id int64) string {
			switch c.op {
			case "store":
				m.Store(c.k, c.v)
			case "delete":
				m.Delete(c.k)
			case "load":
				v, ok := m.Load(c.k)
				return strconv.Itoa(v) + ":" + bstr(ok)
			case "check":
				return bstr(m.Check(c.k))
			case "ensurestore":
				return bstr(m.EnsureStore(c.k, c.v))
			case "swap":
				v, ok := m.Swap(c.k, c.v)
				return strconv.Itoa(v) + ":" + bstr(ok)
			case "get":
				return strconv.Itoa(m.Get(c.k))
			case "ensuredefault":
				return strconv.Itoa(m.EnsureDefault(c.k, func() int { return c.v }))
			case "len":
				return strconv.Itoa(m.Len())
			case "range":
				m.Range(func(k string, v int) bool {
					lg.add(map[string]any{"ev": "visit", "id": id, "k": k, "v": v})
					return true
				})
			}
			return "-"
		}
		final = func() map[string]any {
			items := map[string]int{}
			for _, k := range keyNames {
				v, _ := m.Load(k)
				items[k] = v
			}
			return map[string]any{"ev": "final", "n": m.Len(), "items": items, "runs": []string{}}
		}
	case "atomic", "sync", "casduel", "acc":
		var a interface {
			Load() int
			Store(int)
			Swap(int) int
		}
		var cas func(o, n int) bool
		var with func() int
		set, init := 0, 0
		isSync := false
		if kind == "acc" {
			// AccessorsWithLock / AccessorsWithReadLock over a plain variable: a register with Get and Set only
			var cell int
			get, put := fun.Future[int](func() int { return cell }), fun.Handler[int](func(v int) { cell = v })
			if rng.Intn(2) == 0 {
				get, put = adt.AccessorsWithLock(get, put)
			} else {
				get, put = adt.AccessorsWithReadLock(get, put)
			}
			set, isSync = 1, true
			a = accReg{get, put}
			with = func() int { return get() }
		} else if kind == "sync" || (kind == "casduel" && rng.Intn(3) == 0) {
			s := adt.NewSynchronized(0)
			if rng.Intn(2) == 0 {
				init = 1 + rng.Intn(3)
				s = adt.NewSynchronized(init)
			}
			set, isSync = 1, true
			a, cas = s, func(o, n int) bool { return adt.CompareAndSwap[int](s, o, n) }
			with = func() (out int) { s.With(func(v int) { out = v }); return }
		} else {
			at := &adt.Atomic[int]{}
			if rng.Intn(2) == 0 {
				init, set = rng.Intn(4), 1
				at = adt.NewAtomic(init)
			}
			a, cas = at, func(o, n int) bool { return adt.CompareAndSwap[int](at, o, n) }
			with = func() int { return at.Get() }
		}
		k := "atomic"
		if set == 1 && with != nil && isSync {
			k = "sync"
		}
		lg.add(map[string]any{"ev": "config", "kind": k, "v": init, "set": set, "f": "none"})
		ops := []string{"get", "set", "swap", "cas", "cas", "cas", "with"}
		if kind == "acc" {
			ops = []string{"get", "set", "set", "with"}
		}
		if kind == "casduel" {
			// everybody tries to move the register away from the same value: exactly one may win
			callers, rounds, barrier, procs = 2+rng.Intn(3), 1, true, 6
			ops = []string{"cas"}
			if rng.Intn(3) == 0 {
				ops = []string{"swap"} // every Swap returns what the one before it stored: no two the same
			}
		}
		gen = func(r *rand.Rand, t, j int) opcall {
			c := opcall{op: ops[r.Intn(len(ops))], v: 1 + r.Intn(3), o: r.Intn(4)}
			if kind == "casduel" {
				c.o, c.v = init, 10+t
			}
			return c
		}
		exec = func(c opcall, _ int64) string {
			switch c.op {
			case "get":
				return strconv.Itoa(a.Load())
			case "with":
				return strconv.Itoa(with())
			case "set":
				a.Store(c.v)
			case "swap":
				return strconv.Itoa(a.Swap(c.v))
			case "cas":
				return bstr(cas(c.o, c.v))
			}
			return "-"
		}
		final = func() map[string]any {
			return map[string]any{"ev": "final", "n": a.Load(), "items": map[string]int{}, "runs": []string{}}
		}
	case "once", "onceduel":
		var runs []string
		var rmu sync.Mutex
		fn := func(f string) func() int {
			if f == "nil" {
				return nil
			}
			v, _ := strconv.Atoi(f[1:])
			return func() int {
				lg.add(map[string]any{"ev": "fn", "f": f, "ph": "enter"})
				rmu.Lock()
				runs = append(runs, f)
				rmu.Unlock()
				runtime.Gosched()
				lg.add(map[string]any{"ev": "fn", "f": f, "ph": "exit"})
				return v
			}
		}
		o := &adt.Once[int]{}
		ctor := "none"
		if kind == "once" && rng.Intn(3) == 0 {
			ctor = "f3"
			o = adt.NewOnce(fn(ctor))
		}
		lg.add(map[string]any{"ev": "config", "kind": "once", "v": 0, "set": 0, "f": ctor})
		ops := []string{"do", "do", "resolve", "resolve", "set", "set", "called"}
		if kind == "onceduel" {
			// one Do against one or two Sets, all released together: which function runs?
			callers, rounds, barrier, procs = 2+rng.Intn(2), 1, true, 4
		}
		gen = func(r *rand.Rand, t, j int) opcall {
			c := opcall{op: ops[r.Intn(len(ops))], f: "f" + strconv.Itoa(1+r.Intn(2))}
			if kind == "onceduel" {
				c.op, c.f = "set", "f2"
				if t == 0 {
					c.op, c.f = "do", "f1"
				}
			}
			if c.op == "set" && kind == "once" && r.Intn(6) == 0 {
				c.f = "nil"
			}
			return c
		}
		exec = func(c opcall, _ int64) string {
			switch c.op {
			case "do":
				o.Do(fn(c.f))
			case "resolve":
				return strconv.Itoa(o.Resolve())
			case "set":
				o.Set(fn(c.f))
			case "called":
				return bstr(o.Called())
			}
			return "-"
		}
		final = func() map[string]any {
			// a last, sequential Resolve shows what everybody will see from now on
			id := ids.Add(1)
			lg.add(map[string]any{"ev": "call", "id": id, "op": "resolve", "k": "", "v": 0, "o": 0, "f": ""})
			v := o.Resolve()
			lg.add(map[string]any{"ev": "ret", "id": id, "res": strconv.Itoa(v)})
			rmu.Lock()
			defer rmu.Unlock()
			return map[string]any{"ev": "final", "n": 0, "items": map[string]int{}, "runs": append([]string{}, runs...)}
		}
	default:
		panic(fmt.Sprint("unknown kind ", kind))
	}

	if procs != curProcs {
		// (changing GOMAXPROCS stops the world: only when the value really changes)
		runtime.GOMAXPROCS(procs)
		curProcs = procs
	}
	for _, c := range prologue {
		id := ids.Add(1)
		lg.add(map[string]any{"ev": "call", "id": id, "op": c.op, "k": c.k, "v": c.v, "o": c.o, "f": c.f})
		lg.add(map[string]any{"ev": "ret", "id": id, "res": exec(c, id)})
	}
	var arrived atomic.Int64
	var wg sync.WaitGroup
	for t := 0; t < callers; t++ {
		r := rand.New(rand.NewSource(rng.Int63()))
		t := t
		wg.Add(1)
		go func() {
			defer wg.Done()
			for j := 0; j < rounds; j++ {
				c := gen(r, t, j)
				id := ids.Add(1)
				lg.add(map[string]any{"ev": "call", "id": id, "op": c.op, "k": c.k, "v": c.v, "o": c.o, "f": c.f})
				if barrier {
					// the call event only has to precede the call: log first, then meet, then call at the same moment
					arrived.Add(1)
					for spin := 0; arrived.Load() < int64(callers*(j+1)); spin++ {
						if spin > 300 {
							runtime.Gosched()
						}
					}
				} else if r.Intn(3) == 0 {
					runtime.Gosched()
				}
				res := exec(c, id)
				lg.add(map[string]any{"ev": "ret", "id": id, "res": res})
			}
		}()
	}
	wg.Wait()
	lg.add(final())
	// number the calls in the order in which their call events were logged, so that equal histories are equal texts
	ren := map[int64]int{}
	for _, e := range lg.evs {
		if id, ok := e["id"].(int64); ok {
			if _, known := ren[id]; !known {
				ren[id] = len(ren) + 1
			}
			e["id"] = ren[id]
		}
	}
	return lg.evs
}
