package main

import (
	"context"
	"encoding/json"
	"errors"
	"fmt"
	"runtime"
	"sort"
	"strconv"
	"strings"

	"github.com/tychoish/fun"
	"github.com/tychoish/fun/adt"
	"github.com/tychoish/fun/dt"
	"github.com/tychoish/fun/ers"
	"verif/harness/rt"
)

// cell is the pooled / mapped object: identity (ID), how often a cleanup hook saw it, who made and who cleaned it.
type cell struct {
	ID int    `json:"id"`
	Cl int    `json:"-"`
	By string `json:"-"`
	Hk string `json:"-"`
}

func descOf(c *cell) desc {
	if c == nil {
		return desc{ID: 0, By: "-", Hk: "-"}
	}
	d := desc{ID: c.ID, Cl: c.Cl, By: c.By, Hk: c.Hk}
	if d.By == "" {
		d.By = "-"
	}
	if d.Hk == "" {
		d.Hk = "-"
	}
	return d
}

// factory holds the functions the client installs into a pool and logs their calls (the observable events).
type factory struct {
	ncons int
	ev    []string
}

func (f *factory) ctor(name string) func() *cell {
	return func() *cell {
		f.ncons++
		f.ev = append(f.ev, "new:"+strconv.Itoa(100+f.ncons))
		return &cell{ID: 100 + f.ncons, By: name}
	}
}

func (f *factory) hook(name string) func(*cell) *cell {
	return func(c *cell) *cell {
		if c == nil {
			f.ev = append(f.ev, "hook:0")
			return c
		}
		c.Cl++
		c.Hk = name
		f.ev = append(f.ev, "hook:"+strconv.Itoa(c.ID))
		return c
	}
}

// collect runs a complete garbage collection including the finalizers it makes runnable.  Finalizers run on one
// goroutine, batch after batch; the finalizer of a sentinel queued by a LATER collection runs after every finalizer
// queued by an earlier one has returned.  Two sentinels are therefore a fence - no clock involved.
func collect() {
	for i := 0; i < 2; i++ {
		done := make(chan struct{})
		sentinel(done)
		runtime.GC()
		<-done
	}
}

//go:noinline
func sentinel(done chan struct{}) {
	s := new([64]byte)
	runtime.SetFinalizer(s, func(*[64]byte) { close(done) })
}

func inAllow(d desc, allow []desc) bool {
	for _, a := range allow {
		if a == d {
			return true
		}
	}
	return false
}

func inEvs(ev []string, evs [][]string) bool {
	for _, e := range evs {
		if sameStrings(ev, e) {
			return true
		}
	}
	return false
}

// judgeTake compares what a pool take showed (the object d when visible, the constructor / hook calls ev) with the
// branch the behaviour continues with (pick, s.Ev) and with everything the spec allows (s.Allow, s.Evs).  A freshly
// constructed object is always allowed ("or constructs a default object"): sync.Pool may have dropped its content.
func judgeTake(key string, s step, d *desc, ev []string, fresh bool) *verdict {
	evOK := sameStrings(ev, s.Ev)
	if !evOK && !inEvs(ev, s.Evs) {
		// the real pool constructed where the spec's candidates took a pooled value (or the other way round) - both
		// are always allowed; what must still agree is whether the cleanup hook ran
		ok := false
		for _, e := range s.Evs {
			ok = ok || sameStrings(shape(ev), shape(e))
		}
		if !ok {
			return bad(key+"/events", "constructor / cleanup-hook calls during the call: %v; the spec allows %v", ev, s.Evs)
		}
	}
	if d != nil {
		if s.Pick != nil && *d == *s.Pick && evOK {
			return nil
		}
		if !inAllow(*d, s.Allow) && !(fresh && d.Cl == 0) && !(fresh && s.Present == "true") {
			return bad(key+"/result-not-allowed", "got object %+v; the spec allows %+v", *d, s.Allow)
		}
		return trunc
	}
	if evOK {
		return nil
	}
	return trunc
}

// shape of the observable calls of one pool take: constructions dropped, hook calls without the object's number
func shape(ev []string) []string {
	var out []string
	for _, e := range ev {
		if strings.HasPrefix(e, "hook:") {
			out = append(out, "hook")
		}
	}
	return out
}

func sortedCopy(a []string) []string {
	b := append([]string(nil), a...)
	sort.Strings(b)
	return b
}

// ------------------------------------------------------------------ Map

type mapState struct {
	N  int             `json:"n"`
	Kv json.RawMessage `json:"kv"`
}

type mapSub struct {
	m     *adt.Map[string, *cell]
	f     factory
	user  map[int]*cell
	keys  []string
	ctx   context.Context
	calls int
}

func (x *mapSub) config() {
	x.m.Default.SetConstructor(x.f.ctor("c1"))
	x.m.Default.SetCleanupHook(x.f.hook("h1"))
}

func (x *mapSub) init(s step) *verdict {
	x.m = &adt.Map[string, *cell]{}
	x.user = map[int]*cell{}
	for _, v := range s.Vals {
		x.user[v] = &cell{ID: v}
	}
	x.keys = s.Keys
	x.ctx = context.Background()
	if s.F == "c1" {
		x.config()
	}
	return x.check("New", s.St)
}

func (x *mapSub) check(op string, raw json.RawMessage) *verdict {
	var st mapState
	if err := json.Unmarshal(raw, &st); err != nil {
		return bad("adt/harness/state", "%v", err)
	}
	kv := map[string]struct{ ID, Cl int }{}
	if len(st.Kv) > 0 && st.Kv[0] == '{' {
		if err := json.Unmarshal(st.Kv, &kv); err != nil {
			return bad("adt/harness/state", "%v", err)
		}
	}
	if n := x.m.Len(); n != st.N {
		return bad("adt/Map."+op+"/len", "afterwards Len()=%d, spec %d", n, st.N)
	}
	for _, k := range x.keys {
		want, present := kv[k]
		c, ok := x.m.Load(k)
		if ok != present || x.m.Check(k) != present {
			return bad("adt/Map."+op+"/membership", "afterwards Load(%q) ok=%v Check=%v, spec present=%v", k, ok, x.m.Check(k), present)
		}
		if !present {
			if c != nil {
				return bad("adt/Map."+op+"/membership", "Load(%q) of an absent key returned %+v", k, c)
			}
			continue
		}
		d := descOf(c)
		if d.ID != want.ID {
			return bad("adt/Map."+op+"/state", "afterwards Load(%q) is object %d, spec %d", k, d.ID, want.ID)
		}
		if d.Cl != want.Cl {
			return bad("adt/Map."+op+"/value-cleaned", "the cleanup hook has run %d times on the value of %q (object %d), spec %d", d.Cl, k, d.ID, want.Cl)
		}
	}
	return nil
}

func idOf(c *cell) int {
	if c == nil {
		return 0
	}
	return c.ID
}

func loadRes(c *cell, ok bool) string { return strconv.Itoa(idOf(c)) + ":" + bstr(ok) }

func pairsKey(ps []pair) []string {
	out := make([]string, len(ps))
	for i, p := range ps {
		out[i] = p.K + "=" + strconv.Itoa(p.ID)
	}
	sort.Strings(out)
	return out
}

func (x *mapSub) do(_, _ int, s step) *verdict {
	x.f.ev = nil
	ret := "-"
	name := map[string]string{"store": "Store", "setpair": "Set", "delete": "Delete", "load": "Load", "check": "Check",
		"ensurestore": "EnsureStore", "ensureset": "EnsureSet", "swap": "Swap", "ensuredefault": "EnsureDefault", "get": "Get",
		"ensure": "Ensure", "len": "Len", "range": "Range", "rangestop": "Range", "keys": "Keys", "values": "Values",
		"iterator": "Iterator", "marshal": "MarshalJSON", "unmarshal": "UnmarshalJSON", "config": "Default", "gc": "gc"}[s.Op]
	key := "adt/Map." + name
	switch s.Op {
	case "store":
		x.m.Store(s.K, x.user[s.V])
	case "setpair":
		x.m.Set(dt.MakePair(s.K, x.user[s.V]))
	case "delete":
		x.m.Delete(s.K)
	case "load":
		ret = loadRes(x.m.Load(s.K))
	case "check":
		ret = bstr(x.m.Check(s.K))
	case "ensurestore":
		ret = bstr(x.m.EnsureStore(s.K, x.user[s.V]))
	case "ensureset":
		ret = bstr(x.m.EnsureSet(dt.MakePair(s.K, x.user[s.V])))
	case "swap":
		ret = loadRes(x.m.Swap(s.K, x.user[s.V]))
	case "ensuredefault":
		calls := 0
		ret = strconv.Itoa(idOf(x.m.EnsureDefault(s.K, func() *cell { calls++; return x.user[s.V] })))
		if calls != s.Calls {
			return bad(key+"/constructor-calls", "the constructor ran %d times, spec %d", calls, s.Calls)
		}
	case "get", "ensure":
		var d desc
		if s.Op == "get" {
			c := x.m.Get(s.K)
			d = descOf(c)
			ret = strconv.Itoa(d.ID)
		} else {
			x.m.Ensure(s.K)
			d = descOf(x.value(s.K))
		}
		fresh := len(x.f.ev) > 0 && strings.HasPrefix(x.f.ev[0], "new:")
		if v := judgeTake(key, s, &d, x.f.ev, fresh); v != nil {
			return v
		}
	case "len":
		ret = strconv.Itoa(x.m.Len())
	case "range", "rangestop":
		var got []pair
		x.m.Range(func(k string, c *cell) bool { got = append(got, pair{k, idOf(c)}); return s.Op == "range" })
		if s.Op == "range" {
			if !sameStrings(pairsKey(got), pairsKey(s.Pairs)) {
				return bad(key+"/visits", "Range visited %v, spec: every pair of %v exactly once", got, s.Pairs)
			}
		} else {
			ret = strconv.Itoa(len(got))
			if len(got) == 1 && !inPairs(got[0], s.Pairs) {
				return bad(key+"/visits", "Range visited %v, which is not a pair of the map %v", got, s.Pairs)
			}
		}
	case "keys":
		var got []pair
		it := x.m.Keys()
		for it.Next(x.ctx) {
			k := it.Value()
			got = append(got, pair{k, idOf(x.value(k))})
		}
		if err := it.Close(); err != nil {
			return bad(key+"/close", "Close: %v", err)
		}
		if !sameStrings(pairsKey(got), pairsKey(s.Pairs)) {
			return bad(key+"/visits", "Keys() produced %v, spec: every key of %v exactly once", got, s.Pairs)
		}
	case "values":
		var got, want []string
		it := x.m.Values()
		for it.Next(x.ctx) {
			got = append(got, strconv.Itoa(idOf(it.Value())))
		}
		if err := it.Close(); err != nil {
			return bad(key+"/close", "Close: %v", err)
		}
		for _, p := range s.Pairs {
			want = append(want, strconv.Itoa(p.ID))
		}
		if !sameStrings(sortedCopy(got), sortedCopy(want)) {
			return bad(key+"/visits", "Values() produced %v, spec the values of %v, each once", got, s.Pairs)
		}
	case "iterator":
		var got []pair
		it := x.m.Iterator()
		for it.Next(x.ctx) {
			p := it.Value()
			got = append(got, pair{p.Key, idOf(p.Value)})
		}
		if err := it.Close(); err != nil {
			return bad(key+"/close", "Close: %v", err)
		}
		if !sameStrings(pairsKey(got), pairsKey(s.Pairs)) {
			return bad(key+"/visits", "Iterator() produced %v, spec: every pair of %v exactly once", got, s.Pairs)
		}
	case "marshal":
		raw, err := x.m.MarshalJSON()
		if err != nil {
			return bad(key+"/error", "%v", err)
		}
		var obj map[string]*cell
		if err := json.Unmarshal(raw, &obj); err != nil {
			return bad(key+"/form", "%s: %v", raw, err)
		}
		var got []pair
		for k, c := range obj {
			got = append(got, pair{k, idOf(c)})
		}
		if !sameStrings(pairsKey(got), pairsKey(s.Pairs)) {
			return bad(key+"/content", "MarshalJSON gave %s, spec the object %v", raw, s.Pairs)
		}
	case "unmarshal":
		obj := map[string]*cell{}
		for _, k := range s.Ks {
			obj[k] = &cell{ID: s.V}
		}
		raw, _ := json.Marshal(obj)
		if err := x.m.UnmarshalJSON(raw); err != nil {
			return bad(key+"/error", "%s: %v", raw, err)
		}
	case "config":
		x.config()
	case "gc":
		collect()
		if !sameStrings(sortedCopy(x.f.ev), sortedCopy(s.Evset)) {
			return bad("adt/Map.Default/finalizer-puts", "a garbage collection ran the cleanup hook on %v, spec %v", x.f.ev, s.Evset)
		}
	default:
		return bad("adt/harness/unknown-op", "map %s", s.Op)
	}
	if s.Op != "get" && s.Op != "ensure" && s.Op != "gc" && len(x.f.ev) != 0 {
		return bad(key+"/events", "the call ran the Default pool's constructor / cleanup hook: %v", x.f.ev)
	}
	if ret != s.Ret {
		return bad(key+"/ret", "%s(%s) returned %s, spec %s", name, s.K, ret, s.Ret)
	}
	return x.check(name, s.St)
}

//go:noinline
func (x *mapSub) value(k string) *cell { c, _ := x.m.Load(k); return c }

func inPairs(p pair, ps []pair) bool {
	for _, q := range ps {
		if p == q {
			return true
		}
	}
	return false
}

// ------------------------------------------------------------------ Pool[*cell]

type poolSub struct {
	p    *adt.Pool[*cell]
	f    factory
	held map[int]*cell
}

func (x *poolSub) init(s step) *verdict {
	x.p = &adt.Pool[*cell]{}
	x.held = map[int]*cell{}
	return nil
}

// setup runs a configuration call and classifies its outcome: "-" or the documented panic.
func setup(op func()) (res string) {
	defer func() {
		if r := recover(); r != nil {
			if err, ok := r.(error); ok && errors.Is(err, ers.ErrImmutabilityViolation) && errors.Is(err, fun.ErrInvariantViolation) {
				res = "panic:immutable"
				return
			}
			res = fmt.Sprintf("panic:%v", r)
		}
	}()
	op()
	return "-"
}

func (x *poolSub) do(_, _ int, s step) *verdict {
	x.f.ev = nil
	ret := "-"
	name := map[string]string{"setctor": "SetConstructor", "sethook": "SetCleanupHook", "finalize": "FinalizeSetup",
		"get": "Get", "make": "Make", "put": "Put", "drop": "drop", "gc": "gc"}[s.Op]
	key := "adt/Pool." + name
	switch s.Op {
	case "setctor":
		if s.F == "nil" {
			ret = setup(func() { x.p.SetConstructor(nil) })
		} else {
			ret = setup(func() { x.p.SetConstructor(x.f.ctor(s.F)) })
		}
	case "sethook":
		if s.F == "nil" {
			ret = setup(func() { x.p.SetCleanupHook(nil) })
		} else {
			ret = setup(func() { x.p.SetCleanupHook(x.f.hook(s.F)) })
		}
	case "finalize":
		x.p.FinalizeSetup()
	case "get", "make":
		d := x.take(s.Op == "make")
		ret = strconv.Itoa(d.ID)
		fresh := len(x.f.ev) > 0 && x.f.ev[0] == "new:"+strconv.Itoa(d.ID)
		if v := judgeTake(key, s, &d, x.f.ev, fresh); v != nil {
			return v
		}
	case "put":
		d := x.put(s.X)
		if !sameStrings(x.f.ev, s.Ev) {
			return bad(key+"/hook-calls", "Put(object %d) ran %v, spec %v (the cleanup hook runs exactly once per Put)", s.X, x.f.ev, s.Ev)
		}
		if s.After != nil && d != *s.After {
			return bad(key+"/object-after", "after Put the object is %+v, spec %+v", d, *s.After)
		}
	case "drop":
		delete(x.held, s.X)
	case "gc":
		collect()
		if !sameStrings(sortedCopy(x.f.ev), sortedCopy(s.Evset)) {
			return bad("adt/Pool.Make/finalizer-puts", "a garbage collection ran the cleanup hook on %v, spec %v", x.f.ev, s.Evset)
		}
	default:
		return bad("adt/harness/unknown-op", "pool %s", s.Op)
	}
	if (s.Op == "setctor" || s.Op == "sethook" || s.Op == "finalize" || s.Op == "drop") && len(x.f.ev) != 0 {
		return bad(key+"/events", "the call ran the constructor / cleanup hook: %v", x.f.ev)
	}
	if ret != s.Ret {
		return bad(key+"/ret", "%s(%s) returned %s, spec %s", name, s.F, ret, s.Ret)
	}
	return nil
}

//go:noinline
func (x *poolSub) take(mk bool) desc {
	var c *cell
	if mk {
		c = x.p.Make()
	} else {
		c = x.p.Get()
	}
	if c != nil {
		x.held[c.ID] = c
	}
	return descOf(c)
}

//go:noinline
func (x *poolSub) put(id int) desc {
	c := x.held[id]
	delete(x.held, id)
	x.p.Put(c)
	return descOf(c)
}

// probe reports the "as observed" choices the documentation leaves open, for the generation heuristics of AdtSeq
// (constant Prefer): what Map.Get does with the default it fetched when the key is present.
func probe() {
	x := &mapSub{}
	x.m = &adt.Map[string, *cell]{}
	x.config()
	x.m.Store("a", &cell{ID: 1})
	x.f.ev = nil
	_ = x.m.Get("a")
	choice := "drop"
	for _, e := range x.f.ev {
		if strings.HasPrefix(e, "hook:") {
			choice = "putback"
		}
	}
	// does Put(nil pointer) put the nil into the pool?
	y := &poolSub{p: &adt.Pool[*cell]{}}
	y.p.Put(nil)
	y.p.SetConstructor(y.f.ctor("c1"))
	nilput := "dropped"
	if y.p.Get() == nil {
		nilput = "pooled"
	}
	rt.Emit(map[string]any{"getpresent": choice, "nilput": nilput})
}
