// vh-pipeline binds spec/pipeline (PipelineCtl.tla) to the iterator pipelines of
// tychoish/fun: properties C01 (parallel stages deliver every item exactly once) and
// C04 (pipelines terminate: no stuck consumer, no leaked goroutine).
//
//	vh-pipeline replay < behaviours.ndjson
//
// A behaviour is {"cfg":{...},"steps":[...]} as printed by TLC from PipelineCtl.tla: a
// controllable driver schedule ("consumer c reads", "release the callback of item i",
// "close output o", "cancel the parent context", ...).  After every step the harness
// runs the real construct to quiescence (rt.Quiesce) and compares what it observes
// with the sets of allowed observations the spec attached to the step.  Nothing is
// ever judged by elapsed time; a run that does not quiesce is inconclusive.
//
// Steps: read c / run / rel i / close o / cancel / relall / finish (stepped, observed at quiescence
// after every step); freerun (no gates, every consumer drains concurrently); race-start, race-close,
// race-cancel (arg = repetitions on fresh instances: concurrent first advances / an unsynchronised
// stop against free-running consumers - the Go scheduler picks the interleaving).
//
// Oracles (generic, parameterised by the step's allowed sets): every user-function call is for an
// input item not seen before; every output is f(input item), not output before and in `may`; the end
// of an output only for consumers in `eofs`; a Close has returned; consumers in `must` are not
// blocked (after a stop, or when no user function is held); Run has returned when `run` = must; with
// `full` the delivered bag equals the input bag (and input order where cfg.ord); with `leak` and no
// user function held the census (goroutines with a tychoish/fun frame, minus the baseline taken at
// the start of the behaviour, minus the driver's own operations) is empty.
//
// Items are identified by ids 1..n; the input value of item i is 100+i and a
// transforming stage (Map) outputs 1100+i, so lost, duplicated, invented and
// untransformed values are all distinguishable.
package main

import (
	"context"
	"encoding/json"
	"errors"
	"fmt"
	"io"
	"os"
	"regexp"
	"runtime"
	"sort"
	"strconv"
	"strings"
	"sync"
	"sync/atomic"

	"github.com/tychoish/fun"
	"github.com/tychoish/fun/adt"
	"github.com/tychoish/fun/dt"
	"github.com/tychoish/fun/itertool"
	"verif/harness/rt"
)

// ------------------------------------------------------------------ input format

type config struct {
	C   string `json:"c"`   // construct
	N   int    `json:"n"`   // number of input items
	K   int    `json:"k"`   // workers / outputs / sources / concurrent readers
	Cap int    `json:"cap"` // buffer size (Buffer, BufferedChannel)
	Ord bool   `json:"ord"` // the property demands input order on the output
	Fn  bool   `json:"fn"`  // the construct has a gated user callback per item
	Out int    `json:"out"` // number of outputs (Split: k, otherwise 1); 0 = no output iterator (worker groups)
}

type step struct {
	Op   string `json:"op"`
	Arg  int    `json:"arg"`
	May  []int  `json:"may"`  // items whose output may have been delivered by now (upper bound)
	Eofs []int  `json:"eofs"` // consumers that may have seen the end of their output by now
	Must []int  `json:"must"` // consumers whose pending read must have returned by now
	Run  string `json:"run"`  // worker groups: "must" (Run must have returned) | "may" | "no" (must not)
	Leak bool   `json:"leak"` // no library goroutine may remain (once no callback is held)
	Full bool   `json:"full"` // the delivered bag must equal the input bag now
	Stop string `json:"stop"` // how the consumer has stopped so far: "" | exhaust | close | cancel | close+cancel ...
}

type behaviour struct {
	Cfg   config `json:"cfg"`
	Steps []step `json:"steps"`
}

type input struct {
	N   int       `json:"n"`
	Beh behaviour `json:"beh"`
}

// ------------------------------------------------------------------ main

func main() {
	if len(os.Args) < 2 || os.Args[1] != "replay" {
		fmt.Fprintln(os.Stderr, "usage: vh-pipeline replay < behaviours.ndjson")
		os.Exit(2)
	}
	trace := os.Getenv("VH_TRACE") != ""
	rt.ReadLines(func(_ int, raw json.RawMessage) {
		var in input
		if err := json.Unmarshal(raw, &in); err != nil {
			panic(err)
		}
		rt.Emit(map[string]any{"begin": in.N})
		rt.Flush()
		rt.Emit(replay(in, trace))
		rt.Flush()
	})
	rt.Flush()
}

// ------------------------------------------------------------------ the world

const inBase, outBase = 100, 1100

type readRes struct {
	val int
	err error
}

type consumer struct {
	id      int
	pending *rt.Op
	got     []int // item ids in the order received
	ended   bool
	endErr  string
	reads   int
}

type world struct {
	cfg    config
	rec    *rt.Recorder
	g      *rt.Gates
	pctx   context.Context
	cancel context.CancelFunc

	mu       sync.Mutex
	entered  []int // item ids in order of callback entry (duplicates kept)
	exited   map[int]int
	badVals  []int // values handed to a callback / returned by a read that are no legal item
	released map[int]bool

	outs    []*fun.Iterator[int] // output iterators (nil entries for raw-channel outputs)
	rawOut  <-chan int           // BufferedChannel
	cons    map[int]*consumer
	closes  []*rt.Op // every Close issued
	runOp   *rt.Op   // worker groups
	feedCh  chan int // channel source
	feeds   []*rt.Op
	free    []*rt.Op // free-running consumers
	panics  []string // panics caught in driver-side operations during race repetitions
	genNext atomic.Int64
	useNext bool
}

func gate(i int) string { return "cb" + strconv.Itoa(i) }

// enter is the body of every harness-supplied user function: log, wait at the gate, log.
func (w *world) enter(id int, val int) {
	w.rec.Log(rt.Event{"ev": "cb_enter", "item": id})
	w.mu.Lock()
	if id < 1 || id > w.cfg.N {
		w.badVals = append(w.badVals, val)
	}
	w.entered = append(w.entered, id)
	w.mu.Unlock()
	w.g.Arrive(gate(id))
	w.mu.Lock()
	w.exited[id]++
	w.mu.Unlock()
	w.rec.Log(rt.Event{"ev": "cb_exit", "item": id})
}

func (w *world) slice(ids []int) []int {
	out := make([]int, len(ids))
	for i, id := range ids {
		out[i] = inBase + id
	}
	return out
}

func seq(a, b int) []int {
	var out []int
	for i := a; i <= b; i++ {
		out = append(out, i)
	}
	return out
}

// part returns the ids of partition p (0-based) of 1..n split round-robin into k parts.
func part(n, k, p int) []int {
	var out []int
	for i := 1; i <= n; i++ {
		if (i-1)%k == p {
			out = append(out, i)
		}
	}
	return out
}

func (w *world) source() *fun.Iterator[int] { return fun.SliceIterator(w.slice(seq(1, w.cfg.N))) }

// build constructs the real pipeline.  Nothing may start a goroutine before the first advance.
func (w *world) build() error {
	c := w.cfg
	nw := fun.WorkerGroupConfNumWorkers(c.K)
	switch c.C {
	case "map":
		w.outs = []*fun.Iterator[int]{fun.Map(w.source(), func(_ context.Context, v int) (int, error) {
			w.enter(v-inBase, v)
			return v - inBase + outBase, nil
		}, nw)}
	case "pp", "pfe", "worker":
		// started by the "run" step
	case "pbuf":
		w.outs = []*fun.Iterator[int]{w.source().ParallelBuffer(c.K)}
	case "buffer":
		w.outs = []*fun.Iterator[int]{w.source().Buffer(c.Cap)}
	case "split":
		w.outs = w.source().Split(c.K)
	case "merge":
		var srcs []*fun.Iterator[int]
		for p := 0; p < c.K; p++ {
			srcs = append(srcs, fun.SliceIterator(w.slice(part(c.N, c.K, p))))
		}
		w.outs = []*fun.Iterator[int]{fun.MergeIterators(srcs...)}
	case "gen":
		w.outs = []*fun.Iterator[int]{fun.Producer[int](func(context.Context) (int, error) {
			id := int(w.genNext.Add(1))
			if id > c.N {
				return 0, io.EOF
			}
			w.enter(id, inBase+id)
			return inBase + id, nil
		}).GenerateParallel(nw)}
	case "multiread":
		ch := make(chan int, c.N)
		for _, v := range w.slice(seq(1, c.N)) {
			ch <- v
		}
		close(ch)
		w.outs = []*fun.Iterator[int]{fun.ChannelIterator(ch)}
	case "chain":
		var srcs []*fun.Iterator[int]
		for p := 0; p < c.K; p++ {
			lo, hi := p*c.N/c.K+1, (p+1)*c.N/c.K
			srcs = append(srcs, fun.SliceIterator(w.slice(seq(lo, hi))))
		}
		w.outs = []*fun.Iterator[int]{itertool.Chain(srcs...)}
	case "mslices", "msiters":
		var sls [][]int
		for p := 0; p < c.K; p++ {
			lo, hi := p*c.N/c.K+1, (p+1)*c.N/c.K
			sls = append(sls, w.slice(seq(lo, hi)))
		}
		if c.C == "mslices" {
			w.outs = []*fun.Iterator[int]{itertool.MergeSlices(sls...)}
		} else {
			w.outs = []*fun.Iterator[int]{itertool.MergeSliceIterators(fun.SliceIterator(sls))}
		}
	case "bufchan":
		// BufferedChannel starts its goroutine at once with the context it is given; the
		// consumer's first read is where the schedule starts it.
	case "dtmap":
		// keys = values = item values, so Keys() and Values() are used directly, without a wrapper
		m := dt.Map[int, int]{}
		for _, id := range seq(1, c.N) {
			m[inBase+id] = inBase + id
		}
		switch c.K {
		case 1:
			w.outs = []*fun.Iterator[int]{fun.Converter(func(p dt.Pair[int, int]) int { return p.Value }).Process(m.Iterator())}
		case 2:
			w.outs = []*fun.Iterator[int]{m.Keys()}
		default:
			w.outs = []*fun.Iterator[int]{m.Values()}
		}
	case "adtmap":
		m := &adt.Map[int, int]{}
		for _, id := range seq(1, c.N) {
			m.Store(inBase+id, inBase+id)
		}
		switch c.K {
		case 1:
			w.outs = []*fun.Iterator[int]{fun.Converter(func(p dt.Pair[int, int]) int { return p.Value }).Process(m.Iterator())}
		case 2:
			w.outs = []*fun.Iterator[int]{m.Keys()}
		default:
			w.outs = []*fun.Iterator[int]{m.Values()}
		}
	default:
		return fmt.Errorf("unknown construct %q", c.C)
	}
	return nil
}

func (w *world) startRun() {
	c := w.cfg
	proc := func(_ context.Context, v int) error { w.enter(v-inBase, v); return nil }
	nw := fun.WorkerGroupConfNumWorkers(c.K)
	switch c.C {
	case "pp":
		wk := w.source().ProcessParallel(proc, nw)
		w.runOp = rt.Start(-1, func() any { return errStr(wk.Run(w.pctx)) })
	case "pfe":
		src := w.source()
		w.runOp = rt.Start(-1, func() any { return errStr(itertool.ParallelForEach(w.pctx, src, proc, nw)) })
	case "worker":
		var ops []fun.Worker
		for _, id := range seq(1, c.N) {
			id := id
			ops = append(ops, func(context.Context) error { w.enter(id, inBase+id); return nil })
		}
		src := fun.SliceIterator(ops)
		w.runOp = rt.Start(-1, func() any { return errStr(itertool.Worker(w.pctx, src, nw)) })
	}
}

func errStr(err error) string {
	if err == nil {
		return "nil"
	}
	return "err:" + err.Error()
}

func (w *world) outID(v int) int {
	base := inBase
	if w.cfg.C == "map" {
		base = outBase
	}
	return v - base
}

func (w *world) outOf(c int) int {
	if len(w.outs) > 1 {
		return c - 1
	}
	return 0
}

func (w *world) numConsumers() int {
	if w.cfg.Out == 0 {
		return 0
	}
	if w.cfg.C == "split" || w.cfg.C == "multiread" {
		return w.cfg.K
	}
	return 1
}

// startDrain lets consumer c read its output to the end in one goroutine of its own.
func (w *world) startDrain(c int) *rt.Op {
	x := w.consumer(c)
	if w.cfg.C == "bufchan" {
		if w.rawOut == nil {
			w.rawOut = w.source().BufferedChannel(w.pctx, w.cfg.Cap)
		}
		ch := w.rawOut
		return rt.Start(c, func() any {
			for v := range ch {
				w.mu.Lock()
				x.got = append(x.got, w.outID(v))
				w.mu.Unlock()
			}
			w.mu.Lock()
			x.ended, x.endErr = true, "EOF"
			w.mu.Unlock()
			return nil
		})
	}
	it := w.outs[w.outOf(c)]
	return rt.Start(c, func() any {
		for {
			v, err := it.ReadOne(w.pctx)
			w.mu.Lock()
			if err != nil {
				x.ended, x.endErr = true, err.Error()
				w.mu.Unlock()
				return nil
			}
			x.got = append(x.got, w.outID(v))
			w.mu.Unlock()
		}
	})
}

// race repeats, reps times on fresh instances of the construct, an unsynchronised stop against
// free-running consumers: the consumers advance in their own goroutines while another goroutine
// closes every output (or cancels the context) after 0..3 yields.  The real scheduler picks where
// the stop lands - including inside the very first advance.  Whatever it picks, no advance may
// panic, every advance must return, and (judged by the caller at the final quiescent point) no
// library goroutine may remain.  A panic inside a library goroutine kills the process; the
// replay driver re-runs the behaviour alone and reports the reproduced crash.
func (w *world) race(op string, reps int, seed int) string {
	for r := 0; r < reps; r++ {
		sub := &world{cfg: w.cfg, rec: w.rec, g: rt.NewGates(), exited: map[int]int{}, released: map[int]bool{}, cons: map[int]*consumer{}}
		sub.pctx, sub.cancel = context.WithCancel(context.Background())
		if err := sub.build(); err != nil {
			return err.Error()
		}
		var wg sync.WaitGroup
		guard := func(what string, fn func()) {
			wg.Add(1)
			go func() {
				defer wg.Done()
				defer func() {
					if p := recover(); p != nil {
						w.mu.Lock()
						w.panics = append(w.panics, fmt.Sprintf("%s: %v", what, p))
						w.mu.Unlock()
					}
				}()
				fn()
			}()
		}
		if w.cfg.Out == 0 {
			sub.startRun()
		}
		for c := 1; c <= sub.numConsumers(); c++ {
			if w.cfg.C == "bufchan" {
				ch := sub.source().BufferedChannel(sub.pctx, w.cfg.Cap)
				guard("advance", func() {
					for range ch {
					}
				})
				continue
			}
			it, ctx := sub.outs[sub.outOf(c)], sub.pctx
			guard("advance", func() {
				for {
					if _, err := it.ReadOne(ctx); err != nil {
						return
					}
				}
			})
		}
		// where the stop lands relative to the first advance is varied by a short busy loop (no clock)
		spin := ((r + seed) * 37) % 2048
		yields := 0
		if r%11 == 10 {
			yields = 1 + r%3
		}
		guard("stop", func() {
			for y := 0; y < spin; y++ {
				spinSink.Add(1)
			}
			for y := 0; y < yields; y++ {
				runtime.Gosched()
			}
			if op == "race-cancel" || w.cfg.Out == 0 {
				sub.cancel()
				return
			}
			for _, it := range sub.outs {
				_ = it.Close()
			}
		})
		// the advances return after the stop (finite input; Close / cancel release a blocked advance);
		// should one of them hang, this join hangs and the replay driver's timeout reports exit 2
		wg.Wait()
		sub.cancel()
		if sub.runOp != nil {
			w.free = append(w.free, sub.runOp)
		}
		w.mu.Lock()
		np := len(w.panics)
		w.mu.Unlock()
		if np > 0 {
			break // one observed panic decides; no need for the remaining repetitions
		}
	}
	return ""
}

// raceStart repeats, reps times on fresh instances, an undisturbed run in which every advance is
// concurrent from the very first one: two goroutines per output (ReadOne is documented as safe
// for concurrent use on these channel-backed outputs) - or the worker group's own workers - are
// released together and drain to the end; user functions return at once.  After each repetition
// the delivered bag must equal the input bag (C01).  Returns "" / an inconclusive reason / "!key|what".
func (w *world) raceStart(reps int) string {
	n := w.cfg.N
	for r := 0; r < reps; r++ {
		sub := &world{cfg: w.cfg, rec: &rt.Recorder{}, g: rt.NewGates(), exited: map[int]int{}, released: map[int]bool{}, cons: map[int]*consumer{}}
		sub.pctx, sub.cancel = context.WithCancel(context.Background())
		if err := sub.build(); err != nil {
			return err.Error()
		}
		var wg sync.WaitGroup
		var mu sync.Mutex
		got := map[int]int{}
		// a spinning barrier: the readers leave it within nanoseconds of each other, which is what
		// makes their FIRST advances (the lazy setup) overlap
		var start atomic.Bool
		if w.cfg.Out == 0 {
			sub.startRun()
			for !sub.runOp.Done() {
				runtime.Gosched()
			}
		} else {
			for c := 1; c <= sub.numConsumers(); c++ {
				for twin := 0; twin < 2; twin++ {
					if w.cfg.C == "bufchan" && twin == 1 {
						continue
					}
					var ch <-chan int
					var it *fun.Iterator[int]
					if w.cfg.C == "bufchan" {
						ch = sub.source().BufferedChannel(sub.pctx, w.cfg.Cap)
					} else {
						it = sub.outs[sub.outOf(c)]
					}
					wg.Add(1)
					go func() {
						defer wg.Done()
						for i := 0; !start.Load(); i++ {
							if i%1024 == 1023 {
								runtime.Gosched() // never starve the driver when there are fewer Ps than readers
							}
						}
						for {
							var v int
							if ch != nil {
								x, ok := <-ch
								if !ok {
									return
								}
								v = x
							} else {
								x, err := it.ReadOne(sub.pctx)
								if err != nil {
									return
								}
								v = x
							}
							mu.Lock()
							got[sub.outID(v)]++
							mu.Unlock()
						}
					}()
				}
			}
			start.Store(true)
			wg.Wait() // finite input: every reader reaches the end; a hang here ends as exit 2 (timeout), never as a verdict
		}
		sub.cancel()
		if w.cfg.Fn {
			cnt := map[int]int{}
			sub.mu.Lock()
			for _, id := range sub.entered {
				cnt[id]++
			}
			sub.mu.Unlock()
			for i := 1; i <= n; i++ {
				if cnt[i] != 1 {
					return fmt.Sprintf("!concurrent-start/item-not-processed-once|repetition %d: item %d was handed to the user function %d times", r, i, cnt[i])
				}
			}
		}
		if w.cfg.Out > 0 {
			for id, c := range got {
				if id < 1 || id > n {
					return fmt.Sprintf("!concurrent-start/invented|repetition %d: a value that is no f(input item) was delivered (id %d)", r, id)
				}
				if c > 1 {
					return fmt.Sprintf("!concurrent-start/duplicate|repetition %d: item %d was delivered %d times", r, id, c)
				}
			}
			for i := 1; i <= n; i++ {
				if got[i] != 1 {
					return fmt.Sprintf("!concurrent-start/item-lost|repetition %d: item %d was delivered %d times (%d of %d items arrived)", r, i, got[i], len(got), n)
				}
			}
		}
	}
	return ""
}

func (w *world) consumer(c int) *consumer {
	if x, ok := w.cons[c]; ok {
		return x
	}
	x := &consumer{id: c}
	w.cons[c] = x
	return x
}

// startRead issues one advance of consumer c in its own goroutine.
func (w *world) startRead(c int) {
	x := w.consumer(c)
	if x.pending != nil {
		return
	}
	x.reads++
	if w.cfg.C == "bufchan" {
		if w.rawOut == nil {
			w.rawOut = w.source().BufferedChannel(w.pctx, w.cfg.Cap)
		}
		ch := w.rawOut
		x.pending = rt.Start(c, func() any {
			v, ok := <-ch
			if !ok {
				return readRes{err: io.EOF}
			}
			return readRes{val: v}
		})
		return
	}
	it := w.outs[w.outOf(c)]
	if w.useNext && w.cfg.C != "multiread" {
		// Next/Value is documented as not safe for concurrent use: only where this consumer
		// owns its iterator (every construct but the concurrent-ReadOne one)
		x.pending = rt.Start(c, func() any {
			if it.Next(w.pctx) {
				return readRes{val: it.Value()}
			}
			return readRes{err: errNextFalse}
		})
		return
	}
	x.pending = rt.Start(c, func() any {
		v, err := it.ReadOne(w.pctx)
		return readRes{val: v, err: err}
	})
}

var errNextFalse = errors.New("next-false")

var spinSink atomic.Int64

// collect moves finished reads into the consumers' records.
func (w *world) collect() {
	for _, x := range w.cons {
		if x.pending == nil || !x.pending.Done() {
			continue
		}
		op := x.pending
		x.pending = nil
		if op.Pan != nil {
			x.ended, x.endErr = true, fmt.Sprintf("panic:%v", op.Pan)
			continue
		}
		r := op.Res.(readRes)
		if r.err != nil {
			x.ended, x.endErr = true, r.err.Error()
			continue
		}
		id := w.outID(r.val)
		if id < 1 || id > w.cfg.N {
			w.mu.Lock()
			w.badVals = append(w.badVals, r.val)
			w.mu.Unlock()
		}
		x.got = append(x.got, id)
	}
}

// ------------------------------------------------------------------ observation

type obs struct {
	Step    string            `json:"step"`
	Entered []int             `json:"entered"`
	Held    []int             `json:"held"`
	Got     map[string][]int  `json:"got"`
	Ended   map[string]string `json:"ended"`
	Blocked []int             `json:"blocked"`
	Closes  int               `json:"closes_blocked"`
	Run     string            `json:"run"`
	Lib     []string          `json:"lib"`
	Ops     []string          `json:"ops,omitempty"` // stacks of driver operations still running (diagnosis only)
}

var typeParams = regexp.MustCompile(`\[[^\]]*\]`)

// where names the innermost library function of a goroutine, without package path and type
// parameters - stable enough to be part of a finding key.
func where(g rt.G) string {
	for _, f := range g.Frames() {
		if strings.Contains(f, "github.com/tychoish/fun") {
			f = typeParams.ReplaceAllString(f, "")
			f = strings.TrimPrefix(f, "github.com/tychoish/")
			if i := strings.Index(f, ".func"); i > 0 {
				f = f[:i]
			}
			return f
		}
	}
	return "?"
}

func (w *world) observe(name string, snap []rt.G, base map[int]bool) obs {
	w.collect()
	o := obs{Step: name, Got: map[string][]int{}, Ended: map[string]string{}, Run: "-"}
	w.mu.Lock()
	o.Entered = append([]int{}, w.entered...)
	seen := map[int]bool{}
	for _, id := range w.entered {
		if !seen[id] && w.g.Waiting(gate(id)) > 0 {
			o.Held = append(o.Held, id)
		}
		seen[id] = true
	}
	w.mu.Unlock()
	sort.Ints(o.Held)
	for c, x := range w.cons {
		k := strconv.Itoa(c)
		o.Got[k] = append([]int{}, x.got...)
		if x.ended {
			o.Ended[k] = x.endErr
		}
		if x.pending != nil {
			o.Blocked = append(o.Blocked, c)
		}
	}
	sort.Ints(o.Blocked)
	for _, op := range w.closes {
		if !op.Done() {
			o.Closes++
		}
	}
	if w.runOp != nil {
		if w.runOp.Done() {
			o.Run = fmt.Sprint(w.runOp.Res)
		} else {
			o.Run = "blocked"
		}
	}
	// library goroutines: a tychoish/fun frame, not there before this behaviour, and not one of
	// the driver's own operations (reads, closes, Run), which are accounted for as operations
	for _, g := range rt.FunGoroutines(snap, "verif/harness/rt.Start") {
		if !base[g.ID] {
			o.Lib = append(o.Lib, where(g))
		}
	}
	sort.Strings(o.Lib)
	for _, g := range snap {
		if strings.Contains(g.Stack, "verif/harness/rt.Start") {
			st := g.Stack
			if len(st) > 1500 {
				st = st[:1500]
			}
			o.Ops = append(o.Ops, st)
		}
	}
	return o
}

// settle runs to quiescence and requires two consecutive quiescent points to agree on every
// goroutine's state and on what the driver's operations and user functions did: a single
// snapshot taken while a goroutine is between two blocking states must never decide anything.
func (w *world) settle() ([]rt.G, error) {
	prev := ""
	for i := 0; i < 6; i++ {
		snap, err := rt.Quiesce()
		if err != nil {
			return nil, err
		}
		var sig []string
		for _, g := range snap {
			sig = append(sig, fmt.Sprintf("%d:%s", g.ID, g.State))
		}
		sort.Strings(sig)
		ndone := 0
		for _, x := range w.cons {
			if x.pending != nil && x.pending.Done() {
				ndone++
			}
		}
		for _, op := range append(append([]*rt.Op{}, w.closes...), w.free...) {
			if op.Done() {
				ndone++
			}
		}
		if w.runOp != nil && w.runOp.Done() {
			ndone++
		}
		w.mu.Lock()
		s := fmt.Sprintf("%v|%d|%d|%d", sig, ndone, len(w.entered), len(w.exited))
		w.mu.Unlock()
		if s == prev {
			return snap, nil
		}
		prev = s
	}
	return nil, rt.ErrNotQuiescent
}

// ------------------------------------------------------------------ replay

func inconclusive(in input, why string) map[string]any {
	return map[string]any{"n": in.N, "ok": true, "inconclusive": why}
}

func has(xs []int, v int) bool {
	for _, x := range xs {
		if x == v {
			return true
		}
	}
	return false
}

func replay(in input, trace bool) (result map[string]any) {
	cfg := in.Beh.Cfg
	w := &world{cfg: cfg, rec: &rt.Recorder{}, g: rt.NewGates(), exited: map[int]int{}, released: map[int]bool{},
		cons: map[int]*consumer{}}
	w.useNext = in.N%3 == 1
	w.pctx, w.cancel = context.WithCancel(context.Background())
	for i := 1; i <= cfg.N; i++ {
		w.g.Arm(gate(i))
	}
	base := map[int]bool{}
	for _, g := range rt.FunGoroutines(rt.Snapshot()) {
		base[g.ID] = true
	}
	var log []obs
	defer func() {
		// tear down whatever is left so that later behaviours of this process start clean
		for i := 1; i <= cfg.N; i++ {
			w.g.Disarm(gate(i))
		}
		w.cancel()
		for _, it := range w.outs {
			if it != nil {
				it := it
				rt.Start(-2, func() any { return it.Close() })
			}
		}
		if w.feedCh != nil {
			func() { defer func() { _ = recover() }(); close(w.feedCh) }()
		}
		if trace && result != nil {
			result["trace"] = log
		}
	}()
	if err := w.build(); err != nil {
		return map[string]any{"n": in.N, "ok": true, "inconclusive": err.Error()}
	}
	fail := func(k int, key, what string, o obs) map[string]any {
		return map[string]any{"n": in.N, "ok": false, "step": k, "key": cfg.C + "/" + key, "what": what, "obs": o,
			"cfg": cfg}
	}
	failKey := func(k int, key, what string, o obs) map[string]any {
		m := fail(k, "", what, o)
		m["key"] = key
		return m
	}
	stopName := func(s string) string {
		if s == "" {
			return "running"
		}
		return s
	}
	for k, st := range in.Beh.Steps {
		name := st.Op + ":" + strconv.Itoa(st.Arg)
		switch st.Op {
		case "read":
			w.startRead(st.Arg)
		case "run":
			w.startRun()
		case "rel":
			if w.g.Waiting(gate(st.Arg)) == 0 {
				return inconclusive(in, fmt.Sprintf("step %d: callback of item %d is not held (schedule not executable on this run)", k, st.Arg))
			}
			w.released[st.Arg] = true
			w.g.Disarm(gate(st.Arg))
		case "relall":
			for i := 1; i <= cfg.N; i++ {
				w.released[i] = true
				w.g.Disarm(gate(i))
			}
		case "close":
			it := w.outs[st.Arg-1]
			w.closes = append(w.closes, rt.Start(k, func() any { return errStr(it.Close()) }))
		case "cancel":
			w.cancel()
		case "finish":
			// undisturbed completion: every user function returns, every consumer reads to the end
			for i := 1; i <= cfg.N; i++ {
				w.released[i] = true
				w.g.Disarm(gate(i))
			}
			for c := 1; c <= w.numConsumers(); c++ {
				for j := 0; j <= cfg.N+1; j++ {
					x := w.consumer(c)
					if x.ended {
						break
					}
					w.startRead(c)
					if _, err := w.settle(); err != nil {
						return inconclusive(in, "no quiescence in finish")
					}
					w.collect()
					if x.pending != nil {
						break
					}
				}
			}
		case "freerun":
			// no gate, no stepping: every user function returns at once and every consumer drains
			// its output concurrently; the real scheduler picks the interleaving
			for i := 1; i <= cfg.N; i++ {
				w.released[i] = true
				w.g.Disarm(gate(i))
			}
			if cfg.Out == 0 {
				w.startRun()
			}
			for c := 1; c <= w.numConsumers(); c++ {
				w.free = append(w.free, w.startDrain(c))
			}
		case "race-start":
			if why := w.raceStart(st.Arg); why != "" {
				if strings.HasPrefix(why, "!") {
					parts := strings.SplitN(why[1:], "|", 2)
					return fail(k, parts[0], parts[1], obs{Step: name})
				}
				return inconclusive(in, why)
			}
		case "race-close", "race-cancel":
			if why := w.race(st.Op, st.Arg, in.N); why != "" {
				return inconclusive(in, why)
			}
		case "end":
		default:
			panic("unknown op " + st.Op)
		}
		snap, err := w.settle()
		if err != nil {
			return inconclusive(in, "no quiescence after step "+strconv.Itoa(k))
		}
		o := w.observe(name, snap, base)
		log = append(log, o)

		// ---- the oracle: generic rules, parameterised by the spec's allowed sets ----
		// every callback invocation is for an input item not invoked before
		cnt := map[int]int{}
		for _, id := range o.Entered {
			cnt[id]++
			if id < 1 || id > cfg.N {
				return fail(k, "callback/invented-item", fmt.Sprintf("user function called with a value that is no input item (id %d)", id), o)
			}
			if cnt[id] > 1 {
				return fail(k, "callback/duplicate", fmt.Sprintf("user function called twice for item %d", id), o)
			}
		}
		// every output value is f(input item), not output before, and allowed by the spec at this point
		dcnt := map[int]int{}
		total := 0
		for c, got := range o.Got {
			prev := 0
			for _, id := range got {
				total++
				dcnt[id]++
				if id < 1 || id > cfg.N {
					return fail(k, "output/invented", fmt.Sprintf("consumer %s received a value that is not f(input item): id %d", c, id), o)
				}
				if dcnt[id] > 1 {
					return fail(k, "output/duplicate", fmt.Sprintf("item %d was delivered twice", id), o)
				}
				if !has(st.May, id) {
					return fail(k, "output/not-allowed-yet", fmt.Sprintf("item %d delivered although the spec does not allow it at this point (allowed %v)", id, st.May), o)
				}
				if cfg.Ord && id < prev {
					return fail(k, "output/order", fmt.Sprintf("consumer %s received item %d after item %d", c, id, prev), o)
				}
				prev = id
			}
			if cfg.Ord && len(o.Got) == 1 {
				for j, id := range got {
					if id != j+1 {
						return fail(k, "output/order", fmt.Sprintf("consumer %s: output #%d is item %d", c, j+1, id), o)
					}
				}
			}
		}
		// the end of an output may be observed only where the spec allows it
		for c, e := range o.Ended {
			ci, _ := strconv.Atoi(c)
			if strings.HasPrefix(e, "panic:") {
				return fail(k, stopName(st.Stop)+"/read-panics", fmt.Sprintf("consumer %s: advance panicked: %s", c, e), o)
			}
			if !has(st.Eofs, ci) {
				return fail(k, "eof/premature", fmt.Sprintf("consumer %s saw the end of its output (%s) after %d of %d items were delivered and nothing stopped the run", c, e, total, cfg.N), o)
			}
		}
		if len(w.panics) > 0 {
			return failKey(k, "iterator/stop-races-advance/advance-panics", fmt.Sprintf("%d operation(s) panicked while a stop raced with the consumers' advances, e.g. %s", len(w.panics), w.panics[0]), o)
		}
		for _, op := range w.free {
			if !op.Done() {
				if st.Op == "freerun" {
					return fail(k, "stall/free-running-consumer-blocked", "a free-running consumer (or Run) has not reached the end of the output although every user function returns at once", o)
				}
				return fail(k, stopName(st.Stop)+"/run-blocked", "a Run raced by a cancellation has not returned", o)
			}
		}
		// Close never blocks
		if o.Closes > 0 {
			return fail(k, stopName(st.Stop)+"/close-blocks", "a Close call has not returned by quiescence", o)
		}
		// a consumer that must have returned is not blocked
		for _, c := range st.Must {
			if has(o.Blocked, c) {
				if st.Stop != "" && st.Stop != "exhaust" {
					return fail(k, st.Stop+"/reader-still-blocked", fmt.Sprintf("consumer %d is still blocked in its advance after the stop (%s)", c, st.Stop), o)
				}
				if len(o.Held) == 0 {
					return fail(k, "stall/reader-blocked-nothing-pending", fmt.Sprintf("consumer %d is blocked although no user function is held and the input is finite: it can never return (%d of %d delivered)", c, total, cfg.N), o)
				}
			}
		}
		// worker groups: Run returns exactly when the spec says so
		if w.runOp != nil {
			switch st.Run {
			case "must":
				if o.Run == "blocked" && len(o.Held) == 0 {
					return fail(k, stopName(st.Stop)+"/run-blocked", "the worker group has not returned although every item was processed / the run was stopped and no user function is held", o)
				}
			case "no":
				if o.Run != "blocked" {
					return fail(k, "run/returned-early", fmt.Sprintf("the worker group returned (%s) before every item was processed", o.Run), o)
				}
			}
		}
		// at the end: output bag = f(input bag)
		if st.Full {
			if cfg.Fn {
				for i := 1; i <= cfg.N; i++ {
					if cnt[i] != 1 {
						return fail(k, "end/item-not-processed", fmt.Sprintf("item %d was handed to the user function %d times", i, cnt[i]), o)
					}
				}
			}
			if cfg.Out > 0 {
				for i := 1; i <= cfg.N; i++ {
					if dcnt[i] != 1 {
						return fail(k, "end/item-lost", fmt.Sprintf("item %d was delivered %d times although the run completed (delivered %d of %d)", i, dcnt[i], total, cfg.N), o)
					}
				}
			}
		}
		// no library goroutine remains
		if st.Leak && len(o.Held) == 0 && len(o.Lib) > 0 {
			return fail(k, stopName(st.Stop)+"/goroutine-leak/"+o.Lib[0], fmt.Sprintf("%d library goroutine(s) remain after the consumer stopped (%s): %v", len(o.Lib), st.Stop, o.Lib), o)
		}
	}
	res := map[string]any{"n": in.N, "ok": true, "steps": len(in.Beh.Steps)}
	if len(log) > 0 {
		last := log[len(log)-1]
		res["delivered"] = func() int {
			t := 0
			for _, g := range last.Got {
				t += len(g)
			}
			return t
		}()
		res["entered"] = len(last.Entered)
	}
	return res
}
