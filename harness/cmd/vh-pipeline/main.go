// vh-pipeline binds spec/pipeline (PipelineCtl.tla) to the iterator pipelines of
// tychoish/fun: properties C01 (parallel stages deliver every item exactly once) and
// C04 (pipelines terminate: no stuck consumer, no leaked goroutine).
//
//	vh-pipeline replay < behaviours.ndjson
//
// A behaviour is {"cfg":{...},"steps":[...]} as printed by TLC from PipelineCtl.tla: a
// controllable driver schedule ("consumer c reads", "release the callback of item i",
// "close output o", "cancel the parent context", ...).  After every step the harness
// runs the real construct to quiescence (rt.Quiesce) and compares what it observes
// with the sets of allowed observations the spec attached to the step.  Nothing is
// ever judged by elapsed time; a run that does not quiesce is inconclusive.
//
// Steps: read c / run / rel i / close o / cancel 0 (the parent context) / cancel c (the context of
// consumer c only: every consumer advances under a context of its own) / relall / finish (stepped,
// observed at quiescence after every step); brel (burst: the user functions of the items in `set`
// return at the same instant - they leave a spin latch together, GOMAXPROCS >= 4 - and the run is
// observed at the next quiescent point; a schedule with a burst is repeated `arg` times on fresh
// instances); freerun (no gates, every consumer drains concurrently); race-start, race-close,
// race-cancel (arg = repetitions on fresh instances: concurrent first advances / an unsynchronised
// stop against free-running consumers - the Go scheduler picks the interleaving); race-fill-close,
// race-fill-cancel (arg = repetitions: every consumer takes one or two items of a long input and
// stops without reading on, while the senders are filling the pipe).
//
// Configuration: cfg.cb = "ctx" makes the user functions respect their context (a held function
// returns the context's error once it is cancelled, a call with a dead context returns it at once);
// cfg.opt selects WorkerGroupConf options (e ContinueOnError, p ContinueOnPanic, c IncludeContextErrors).
//
// Oracles (generic, parameterised by the step's allowed sets): every user-function call is for an
// input item not seen before; every output is f(input item), not output before and in `may`; the end
// of an output only for consumers in `eofs`; a Close has returned; consumers in `must` are not
// blocked (after a stop - also a consumer in `live`, whose own output and context were NOT stopped:
// a finite input always leads to io.EOF - or when no user function is held); no worker keeps invoking
// a user function whose context is cancelled (more than 1000 x `calls` such invocations: the harness
// parks the caller and reports it); Run has returned when `run` = must; with
// `full` the delivered bag equals the input bag (and input order where cfg.ord); with `leak` and no
// user function held the census (goroutines with a tychoish/fun frame, minus the baseline taken at
// the start of the behaviour, minus the driver's own operations) is empty.
//
// Items are identified by ids 1..n; the input value of item i is 100+i and a
// transforming stage (Map) outputs 1100+i, so lost, duplicated, invented and
// untransformed values are all distinguishable.
package main

import (
	"context"
	"encoding/json"
	"errors"
	"fmt"
	"io"
	"os"
	"regexp"
	"runtime"
	"sort"
	"strconv"
	"strings"
	"sync"
	"sync/atomic"

	"github.com/tychoish/fun"
	"github.com/tychoish/fun/adt"
	"github.com/tychoish/fun/dt"
	"github.com/tychoish/fun/itertool"
	"verif/harness/rt"
)

// ------------------------------------------------------------------ input format

type config struct {
	C   string `json:"c"`   // construct
	N   int    `json:"n"`   // number of input items
	K   int    `json:"k"`   // workers / outputs / sources / concurrent readers
	Cap int    `json:"cap"` // buffer size (Buffer, BufferedChannel)
	Ord bool   `json:"ord"` // the property demands input order on the output
	Fn  bool   `json:"fn"`  // the construct has a gated user callback per item
	Out int    `json:"out"` // number of outputs (Split: k, otherwise 1); 0 = no output iterator (worker groups)
	Opt string `json:"opt"` // WorkerGroupConf options: e = ContinueOnError, p = ContinueOnPanic, c = IncludeContextErrors
	Cb  string `json:"cb"`  // "plain": user functions ignore their context; "ctx": they return its error once it is cancelled
	// an annotated operand / input delivers all its items and finishes normally, but its Close() is non-nil
	Ann  int    `json:"ann"`  // MergeIterators: the annotated operand (1-based); other constructs: 1 = the input; 0 = none
	AnnK string `json:"annk"` // "adderr": Iterator.AddError; "mapcont": output of a Map in ContinueOnError mode with a failing (extra) item
}

type step struct {
	Op    string `json:"op"`
	Arg   int    `json:"arg"`
	Set   []int  `json:"set"`   // brel: the items whose user functions are released in one burst
	May   []int  `json:"may"`   // items whose output may have been delivered by now (upper bound)
	Eofs  []int  `json:"eofs"`  // consumers that may have seen the end of their output by now
	Must  []int  `json:"must"`  // consumers whose pending read must have returned by now
	Live  []int  `json:"live"`  // consumers whose own output is open and whose own context is live
	Calls int    `json:"calls"` // bound on the user-function invocations a run can legitimately need
	Run   string `json:"run"`   // worker groups: "must" (Run must have returned) | "may" | "no" (must not)
	Leak  bool   `json:"leak"`  // no library goroutine may remain (once no callback is held)
	Full  bool   `json:"full"`  // the delivered bag must equal the input bag now
	Stop  string `json:"stop"`  // how the consumer has stopped so far: "" | exhaust | close | cancel | close+cancel ...
}

type behaviour struct {
	Cfg   config `json:"cfg"`
	Steps []step `json:"steps"`
}

type input struct {
	N   int       `json:"n"`
	Beh behaviour `json:"beh"`
}

// ------------------------------------------------------------------ main

func main() {
	if len(os.Args) < 2 || os.Args[1] != "replay" {
		fmt.Fprintln(os.Stderr, "usage: vh-pipeline replay < behaviours.ndjson")
		os.Exit(2)
	}
	trace := os.Getenv("VH_TRACE") != ""
	rt.ReadLines(func(_ int, raw json.RawMessage) {
		var in input
		if err := json.Unmarshal(raw, &in); err != nil {
			panic(err)
		}
		rt.Emit(map[string]any{"begin": in.N})
		rt.Flush()
		rt.Emit(replay(in, trace))
		rt.Flush()
	})
	rt.Flush()
}

// ------------------------------------------------------------------ the world

const inBase, outBase = 100, 1100

type readRes struct {
	val int
	err error
}

type consumer struct {
	id      int
	pending *rt.Op
	got     []int // item ids in the order received
	ended   bool
	endErr  string
	reads   int
}

// gates holds user functions at one gate per item.  Unlike rt.Gates a waiter can also be
// released by its context (user functions that respect their context), and released waiters
// pass a spin latch: while the latch is shut they spin (running, not blocked) and leave it
// within nanoseconds of each other when the driver opens it - that is what makes the sends
// of a burst race for the same slot of the pipe.
type gates struct {
	mu       sync.Mutex
	ch       map[int]chan struct{}
	open     map[int]bool
	waiting  map[int]int
	latch    atomic.Bool
	spinning atomic.Int32
	beat     [maxBurst]struct {
		n atomic.Int64
		_ [56]byte // one cache line per spinner
	}
}

const maxBurst = 16

func newGates() *gates {
	return &gates{ch: map[int]chan struct{}{}, open: map[int]bool{}, waiting: map[int]int{}}
}

func (g *gates) chanOf(id int) chan struct{} {
	c, ok := g.ch[id]
	if !ok {
		c = make(chan struct{})
		g.ch[id] = c
	}
	return c
}

// Arm creates the (shut) gate of item id.
func (g *gates) Arm(id int) { g.mu.Lock(); g.chanOf(id); g.mu.Unlock() }

// Disarm opens the gate for good and releases everybody waiting.
func (g *gates) Disarm(id int) {
	g.mu.Lock()
	if !g.open[id] {
		g.open[id] = true
		close(g.chanOf(id))
	}
	g.mu.Unlock()
}

// Arrive blocks at the gate of id (a gate that was never armed is open).  With a non-nil ctx the
// wait also ends when ctx is done, and the context's error is returned.
func (g *gates) Arrive(ctx context.Context, id int) error {
	g.mu.Lock()
	c, ok := g.ch[id]
	if !ok || g.open[id] {
		g.mu.Unlock()
		return nil
	}
	g.waiting[id]++
	g.mu.Unlock()
	var err error
	if ctx != nil {
		select {
		case <-c:
		case <-ctx.Done():
			err = ctx.Err()
		}
	} else {
		<-c
	}
	g.mu.Lock()
	g.waiting[id]--
	g.mu.Unlock()
	return err
}

// Pass is the last thing a released user function does before it returns into the library: while the
// latch is shut it spins (running, not blocked; its heartbeat tells the driver that it is on a
// processor right now) and leaves the moment the latch opens.
func (g *gates) Pass(id int) {
	if !g.latch.Load() {
		return
	}
	slot := int(g.spinning.Add(1)-1) % maxBurst
	for i := 1; g.latch.Load(); i++ {
		g.beat[slot].n.Add(1)
		if i%(1<<22) == 0 {
			runtime.Gosched()
		}
	}
}

// OpenLatch opens the latch at a moment when every one of the n spinners was seen making progress
// (all of them are on a processor), so that they leave within nanoseconds of each other.
func (g *gates) OpenLatch(n int) {
	var last [maxBurst]int64
	for try := 0; try < 2000; try++ {
		for i := 0; i < n && i < maxBurst; i++ {
			last[i] = g.beat[i].n.Load()
		}
		for i := 0; i < 300; i++ {
			spinSink.Add(1)
		}
		all := true
		for i := 0; i < n && i < maxBurst; i++ {
			if g.beat[i].n.Load() == last[i] {
				all = false
			}
		}
		if all {
			break
		}
		if try%16 == 15 {
			runtime.Gosched()
		}
	}
	g.latch.Store(false)
}

// Waiting reports how many goroutines are held at the gate of id.
func (g *gates) Waiting(id int) int { g.mu.Lock(); defer g.mu.Unlock(); return g.waiting[id] }

// spinFactor: a worker is reported as spinning when the user functions were invoked with an already
// cancelled context more than spinFactor times the spec's bound on ALL legitimate invocations of a run.
const spinFactor = 1000

type world struct {
	cfg    config
	rec    *rt.Recorder
	g      *gates
	pctx   context.Context
	cancel context.CancelFunc
	cctx   map[int]context.Context // every consumer advances under a context of its own (child of pctx)
	ccan   map[int]context.CancelFunc

	deadCalls atomic.Int64  // user-function invocations that found their context already cancelled
	callLimit int64         // spinFactor * the spec's bound (0 = not judged)
	trapped   atomic.Int32  // invocations parked in the trap after the limit was exceeded
	trapCh    chan struct{} // closed at tear-down

	mu       sync.Mutex
	entered  []int // item ids in order of callback entry (duplicates kept)
	exited   map[int]int
	badVals  []int // values handed to a callback / returned by a read that are no legal item
	released map[int]bool

	outs    []*fun.Iterator[int] // output iterators (nil entries for raw-channel outputs)
	rawOut  <-chan int           // BufferedChannel
	cons    map[int]*consumer
	closes  []*rt.Op // every Close issued
	runOp   *rt.Op   // worker groups
	feedCh  chan int // channel source
	feeds   []*rt.Op
	free    []*rt.Op // free-running consumers
	panics  []string // panics caught in driver-side operations during race repetitions
	genNext atomic.Int64
	useNext bool
}

func newWorld(cfg config, rec *rt.Recorder) *world {
	w := &world{cfg: cfg, rec: rec, g: newGates(), exited: map[int]int{}, released: map[int]bool{}, cons: map[int]*consumer{},
		cctx: map[int]context.Context{}, ccan: map[int]context.CancelFunc{}, trapCh: make(chan struct{})}
	w.pctx, w.cancel = context.WithCancel(context.Background())
	return w
}

// consCtx is the context consumer c passes to every advance of its output.
func (w *world) consCtx(c int) context.Context {
	if ctx, ok := w.cctx[c]; ok {
		return ctx
	}
	w.cctx[c], w.ccan[c] = context.WithCancel(w.pctx)
	return w.cctx[c]
}

func (w *world) ctxAware() bool { return w.cfg.Cb == "ctx" }

// dead is a user-function invocation that respects its context and finds it already cancelled: it
// returns the context's error at once.  A worker that keeps calling is stopped by the trap once the
// number of such calls is beyond anything a terminating run can need (judged by the caller).
func (w *world) dead(ctx context.Context) error {
	n := w.deadCalls.Add(1)
	if w.callLimit > 0 && n > w.callLimit {
		w.trapped.Add(1)
		<-w.trapCh
		return io.EOF
	}
	return ctx.Err()
}

// enter is the body of every harness-supplied user function: log, wait at the gate, log.  A
// function that respects its context (cfg.cb = "ctx") returns the context's error instead of
// waiting on once the context is cancelled.
func (w *world) enter(ctx context.Context, id int, val int) error {
	w.rec.Log(rt.Event{"ev": "cb_enter", "item": id})
	w.mu.Lock()
	if id < 1 || id > w.cfg.N {
		w.badVals = append(w.badVals, val)
	}
	w.entered = append(w.entered, id)
	w.mu.Unlock()
	var err error
	if w.ctxAware() {
		if ctx.Err() != nil {
			err = w.dead(ctx)
		} else {
			err = w.g.Arrive(ctx, id)
		}
	} else {
		_ = w.g.Arrive(nil, id)
	}
	w.mu.Lock()
	w.exited[id]++
	w.mu.Unlock()
	w.rec.Log(rt.Event{"ev": "cb_exit", "item": id})
	if err == nil {
		w.g.Pass(id)
	}
	return err
}

// opts are the worker-group options of the configuration.
func (w *world) opts() []fun.OptionProvider[*fun.WorkerGroupConf] {
	out := []fun.OptionProvider[*fun.WorkerGroupConf]{fun.WorkerGroupConfNumWorkers(w.cfg.K)}
	if strings.Contains(w.cfg.Opt, "e") {
		out = append(out, fun.WorkerGroupConfContinueOnError())
	}
	if strings.Contains(w.cfg.Opt, "p") {
		out = append(out, fun.WorkerGroupConfContinueOnPanic())
	}
	if strings.Contains(w.cfg.Opt, "c") {
		out = append(out, fun.WorkerGroupConfIncludeContextErrors())
	}
	return out
}

func (w *world) slice(ids []int) []int {
	out := make([]int, len(ids))
	for i, id := range ids {
		out[i] = inBase + id
	}
	return out
}

func seq(a, b int) []int {
	var out []int
	for i := a; i <= b; i++ {
		out = append(out, i)
	}
	return out
}

// part returns the ids of partition p (0-based) of 1..n split round-robin into k parts.
func part(n, k, p int) []int {
	var out []int
	for i := 1; i <= n; i++ {
		if (i-1)%k == p {
			out = append(out, i)
		}
	}
	return out
}

func (w *world) source() *fun.Iterator[int] {
	if w.cfg.Ann == 1 && w.cfg.C != "merge" {
		return w.annotated(seq(1, w.cfg.N))
	}
	return fun.SliceIterator(w.slice(seq(1, w.cfg.N)))
}

var errAnn = errors.New("recorded, non-fatal error of an annotated iterator")

const poison = inBase - 1 // the extra item of a "mapcont" operand: its transformation fails, it is never delivered

// annotated builds an iterator over the given items that delivers all of them and finishes normally,
// yet carries a recorded error, so that its Close() is non-nil: nothing about it aborts a run.
func (w *world) annotated(ids []int) *fun.Iterator[int] {
	vals := w.slice(ids)
	switch w.cfg.AnnK {
	case "mapcont":
		pos := len(vals) / 2
		in := append(append(append([]int{}, vals[:pos]...), poison), vals[pos:]...)
		return fun.Map(fun.SliceIterator(in), func(_ context.Context, v int) (int, error) {
			if v == poison {
				return 0, errAnn
			}
			return v, nil
		}, fun.WorkerGroupConfNumWorkers(1), fun.WorkerGroupConfContinueOnError())
	default: // "adderr"
		it := fun.SliceIterator(vals)
		it.AddError(errAnn)
		return it
	}
}

// build constructs the real pipeline.  Nothing may start a goroutine before the first advance.
func (w *world) build() error {
	c := w.cfg
	switch c.C {
	case "map":
		w.outs = []*fun.Iterator[int]{fun.Map(w.source(), func(ctx context.Context, v int) (int, error) {
			if err := w.enter(ctx, v-inBase, v); err != nil {
				return 0, err
			}
			return v - inBase + outBase, nil
		}, w.opts()...)}
	case "pp", "pfe", "worker":
		// started by the "run" step
	case "pbuf":
		w.outs = []*fun.Iterator[int]{w.source().ParallelBuffer(c.K)}
	case "pbufg":
		// the body of Iterator.ParallelBuffer (iterator.go), statement by statement, with two differences: the
		// capacity of the pipe is a parameter of its own, and the workers' processor passes the gate of its
		// item before it hands the item to buf.Send().Write - a yield point in front of the send, so that the
		// schedule decides how many senders meet at the pipe and when
		src := w.source()
		buf := fun.Blocking(make(chan int, c.Cap))
		send := buf.Send()
		proc := fun.Processor[int](func(ctx context.Context, v int) error {
			if err := w.enter(ctx, v-inBase, v); err != nil {
				return err
			}
			return send.Write(ctx, v)
		})
		pipe := src.ProcessParallel(proc, w.opts()...).Operation(src.ErrorHandler().Lock()).PostHook(buf.Close).Once().Go()
		w.outs = []*fun.Iterator[int]{buf.Producer().PreHook(pipe).IteratorWithHook(func(si *fun.Iterator[int]) { si.AddError(src.Close()) })}
	case "buffer":
		w.outs = []*fun.Iterator[int]{w.source().Buffer(c.Cap)}
	case "split":
		w.outs = w.source().Split(c.K)
	case "merge":
		var srcs []*fun.Iterator[int]
		for p := 0; p < c.K; p++ {
			if c.Ann == p+1 {
				srcs = append(srcs, w.annotated(part(c.N, c.K, p)))
				continue
			}
			srcs = append(srcs, fun.SliceIterator(w.slice(part(c.N, c.K, p))))
		}
		w.outs = []*fun.Iterator[int]{fun.MergeIterators(srcs...)}
	case "gen":
		w.outs = []*fun.Iterator[int]{fun.Producer[int](func(ctx context.Context) (int, error) {
			if w.ctxAware() && ctx.Err() != nil {
				return 0, w.dead(ctx) // no item is taken by a call that finds its context cancelled
			}
			id := int(w.genNext.Add(1))
			if id > c.N {
				return 0, io.EOF
			}
			if err := w.enter(ctx, id, inBase+id); err != nil {
				return 0, err
			}
			return inBase + id, nil
		}).GenerateParallel(w.opts()...)}
	case "multiread":
		ch := make(chan int, c.N)
		for _, v := range w.slice(seq(1, c.N)) {
			ch <- v
		}
		close(ch)
		w.outs = []*fun.Iterator[int]{fun.ChannelIterator(ch)}
	case "chain":
		var srcs []*fun.Iterator[int]
		for p := 0; p < c.K; p++ {
			lo, hi := p*c.N/c.K+1, (p+1)*c.N/c.K
			srcs = append(srcs, fun.SliceIterator(w.slice(seq(lo, hi))))
		}
		w.outs = []*fun.Iterator[int]{itertool.Chain(srcs...)}
	case "mslices", "msiters":
		var sls [][]int
		for p := 0; p < c.K; p++ {
			lo, hi := p*c.N/c.K+1, (p+1)*c.N/c.K
			sls = append(sls, w.slice(seq(lo, hi)))
		}
		if c.C == "mslices" {
			w.outs = []*fun.Iterator[int]{itertool.MergeSlices(sls...)}
		} else {
			w.outs = []*fun.Iterator[int]{itertool.MergeSliceIterators(fun.SliceIterator(sls))}
		}
	case "bufchan":
		// BufferedChannel starts its goroutine at once with the context it is given; the
		// consumer's first read is where the schedule starts it.
	case "dtmap":
		// keys = values = item values, so Keys() and Values() are used directly, without a wrapper
		m := dt.Map[int, int]{}
		for _, id := range seq(1, c.N) {
			m[inBase+id] = inBase + id
		}
		switch c.K {
		case 1:
			w.outs = []*fun.Iterator[int]{fun.Converter(func(p dt.Pair[int, int]) int { return p.Value }).Process(m.Iterator())}
		case 2:
			w.outs = []*fun.Iterator[int]{m.Keys()}
		default:
			w.outs = []*fun.Iterator[int]{m.Values()}
		}
	case "adtmap":
		m := &adt.Map[int, int]{}
		for _, id := range seq(1, c.N) {
			m.Store(inBase+id, inBase+id)
		}
		switch c.K {
		case 1:
			w.outs = []*fun.Iterator[int]{fun.Converter(func(p dt.Pair[int, int]) int { return p.Value }).Process(m.Iterator())}
		case 2:
			w.outs = []*fun.Iterator[int]{m.Keys()}
		default:
			w.outs = []*fun.Iterator[int]{m.Values()}
		}
	default:
		return fmt.Errorf("unknown construct %q", c.C)
	}
	return nil
}

func (w *world) startRun() {
	c := w.cfg
	proc := func(ctx context.Context, v int) error { return w.enter(ctx, v-inBase, v) }
	switch c.C {
	case "pp":
		wk := w.source().ProcessParallel(proc, w.opts()...)
		w.runOp = rt.Start(-1, func() any { return errStr(wk.Run(w.pctx)) })
	case "pfe":
		src := w.source()
		w.runOp = rt.Start(-1, func() any { return errStr(itertool.ParallelForEach(w.pctx, src, proc, w.opts()...)) })
	case "worker":
		var ops []fun.Worker
		for _, id := range seq(1, c.N) {
			id := id
			ops = append(ops, func(ctx context.Context) error { return w.enter(ctx, id, inBase+id) })
		}
		src := fun.SliceIterator(ops)
		w.runOp = rt.Start(-1, func() any { return errStr(itertool.Worker(w.pctx, src, w.opts()...)) })
	}
}

func errStr(err error) string {
	if err == nil {
		return "nil"
	}
	return "err:" + err.Error()
}

func (w *world) outID(v int) int {
	base := inBase
	if w.cfg.C == "map" {
		base = outBase
	}
	return v - base
}

func (w *world) outOf(c int) int {
	if len(w.outs) > 1 {
		return c - 1
	}
	return 0
}

func (w *world) numConsumers() int {
	if w.cfg.Out == 0 {
		return 0
	}
	if w.cfg.C == "split" || w.cfg.C == "multiread" {
		return w.cfg.K
	}
	return 1
}

// startDrain lets consumer c read its output to the end in one goroutine of its own.
func (w *world) startDrain(c int) *rt.Op {
	x := w.consumer(c)
	if w.cfg.C == "bufchan" {
		if w.rawOut == nil {
			w.rawOut = w.source().BufferedChannel(w.pctx, w.cfg.Cap)
		}
		ch := w.rawOut
		return rt.Start(c, func() any {
			for v := range ch {
				w.mu.Lock()
				x.got = append(x.got, w.outID(v))
				w.mu.Unlock()
			}
			w.mu.Lock()
			x.ended, x.endErr = true, "EOF"
			w.mu.Unlock()
			return nil
		})
	}
	it, ctx := w.outs[w.outOf(c)], w.consCtx(c)
	return rt.Start(c, func() any {
		for {
			v, err := it.ReadOne(ctx)
			w.mu.Lock()
			if err != nil {
				x.ended, x.endErr = true, err.Error()
				w.mu.Unlock()
				return nil
			}
			x.got = append(x.got, w.outID(v))
			w.mu.Unlock()
		}
	})
}

// race repeats, reps times on fresh instances of the construct, an unsynchronised stop against
// free-running consumers: the consumers advance in their own goroutines while another goroutine
// closes every output (or cancels the context) after 0..3 yields.  The real scheduler picks where
// the stop lands - including inside the very first advance.  Whatever it picks, no advance may
// panic, every advance must return, and (judged by the caller at the final quiescent point) no
// library goroutine may remain.  A panic inside a library goroutine kills the process; the
// replay driver re-runs the behaviour alone and reports the reproduced crash.
//
// race-fill-close / race-fill-cancel are the same race at the other end of the pipe: the input is long
// compared with the pipe, every consumer takes one or two items and then stops (Close of its output /
// cancellation) WITHOUT reading on, so the stop lands while the senders are filling the pipe for the
// first time and compete for its last free slots (user functions return at once).  The judgement is
// the same: every advance returns, nothing of the library remains at the final quiescent point.
func (w *world) race(op string, reps int, seed int) string {
	fill := strings.HasPrefix(op, "race-fill")
	cancelMode := strings.HasSuffix(op, "cancel") || w.cfg.Out == 0
	for r := 0; r < reps; r++ {
		sub := newWorld(w.cfg, w.rec)
		reads := 1 + r%2 // fill: items a consumer takes before it stops
		if err := sub.build(); err != nil {
			return err.Error()
		}
		var wg sync.WaitGroup
		guard := func(what string, fn func()) {
			wg.Add(1)
			go func() {
				defer wg.Done()
				defer func() {
					if p := recover(); p != nil {
						w.mu.Lock()
						w.panics = append(w.panics, fmt.Sprintf("%s: %v", what, p))
						w.mu.Unlock()
					}
				}()
				fn()
			}()
		}
		if w.cfg.Out == 0 {
			sub.startRun()
		}
		// where the stop lands relative to the first advance is varied by a short busy loop (no clock)
		spin := ((r + seed) * 37) % 2048
		afterBurst := func() {
			for y := 0; y < spin; y++ {
				spinSink.Add(1)
			}
		}
		for c := 1; c <= sub.numConsumers(); c++ {
			c := c
			if w.cfg.C == "bufchan" {
				ch := sub.source().BufferedChannel(sub.pctx, w.cfg.Cap)
				guard("advance", func() {
					if fill {
						for j := 0; j < reads; j++ {
							if _, ok := <-ch; !ok {
								break
							}
						}
						afterBurst()
						sub.cancel()
					}
					for range ch {
					}
				})
				continue
			}
			it, ctx := sub.outs[sub.outOf(c)], sub.pctx
			guard("advance", func() {
				if fill {
					// the documented way of stopping early: take what you need, then Close / cancel
					for j := 0; j < reads; j++ {
						if _, err := it.ReadOne(ctx); err != nil {
							break
						}
					}
					afterBurst()
					if !cancelMode {
						_ = it.Close()
					} else if c == 1 {
						sub.cancel()
					}
					return
				}
				for {
					if _, err := it.ReadOne(ctx); err != nil {
						return
					}
				}
			})
		}
		yields := 0
		if r%11 == 10 {
			yields = 1 + r%3
		}
		if !fill || w.cfg.Out == 0 {
			guard("stop", func() {
				for y := 0; y < spin; y++ {
					spinSink.Add(1)
				}
				for y := 0; y < yields; y++ {
					runtime.Gosched()
				}
				if cancelMode {
					sub.cancel()
					return
				}
				for _, it := range sub.outs {
					_ = it.Close()
				}
			})
		}
		// the advances return after the stop (finite input; Close / cancel release a blocked advance);
		// should one of them hang, this join hangs and the replay driver's timeout reports exit 2
		wg.Wait()
		sub.cancel()
		if sub.runOp != nil {
			w.free = append(w.free, sub.runOp)
		}
		w.mu.Lock()
		np := len(w.panics)
		w.mu.Unlock()
		if np > 0 {
			break // one observed panic decides; no need for the remaining repetitions
		}
	}
	return ""
}

// raceStart repeats, reps times on fresh instances, an undisturbed run in which every advance is
// concurrent from the very first one: two goroutines per output (ReadOne is documented as safe
// for concurrent use on these channel-backed outputs) - or the worker group's own workers - are
// released together and drain to the end; user functions return at once.  After each repetition
// the delivered bag must equal the input bag (C01).  Returns "" / an inconclusive reason / "!key|what".
func (w *world) raceStart(reps int) string {
	n := w.cfg.N
	for r := 0; r < reps; r++ {
		sub := newWorld(w.cfg, &rt.Recorder{})
		if err := sub.build(); err != nil {
			return err.Error()
		}
		var wg sync.WaitGroup
		var mu sync.Mutex
		got := map[int]int{}
		// a spinning barrier: the readers leave it within nanoseconds of each other, which is what
		// makes their FIRST advances (the lazy setup) overlap
		var start atomic.Bool
		if w.cfg.Out == 0 {
			sub.startRun()
			for !sub.runOp.Done() {
				runtime.Gosched()
			}
		} else {
			for c := 1; c <= sub.numConsumers(); c++ {
				for twin := 0; twin < 2; twin++ {
					if w.cfg.C == "bufchan" && twin == 1 {
						continue
					}
					var ch <-chan int
					var it *fun.Iterator[int]
					if w.cfg.C == "bufchan" {
						ch = sub.source().BufferedChannel(sub.pctx, w.cfg.Cap)
					} else {
						it = sub.outs[sub.outOf(c)]
					}
					wg.Add(1)
					go func() {
						defer wg.Done()
						for i := 0; !start.Load(); i++ {
							if i%1024 == 1023 {
								runtime.Gosched() // never starve the driver when there are fewer Ps than readers
							}
						}
						for {
							var v int
							if ch != nil {
								x, ok := <-ch
								if !ok {
									return
								}
								v = x
							} else {
								x, err := it.ReadOne(sub.pctx)
								if err != nil {
									return
								}
								v = x
							}
							mu.Lock()
							got[sub.outID(v)]++
							mu.Unlock()
						}
					}()
				}
			}
			start.Store(true)
			wg.Wait() // finite input: every reader reaches the end; a hang here ends as exit 2 (timeout), never as a verdict
		}
		sub.cancel()
		if w.cfg.Fn {
			cnt := map[int]int{}
			sub.mu.Lock()
			for _, id := range sub.entered {
				cnt[id]++
			}
			sub.mu.Unlock()
			for i := 1; i <= n; i++ {
				if cnt[i] != 1 {
					return fmt.Sprintf("!concurrent-start/item-not-processed-once|repetition %d: item %d was handed to the user function %d times", r, i, cnt[i])
				}
			}
		}
		if w.cfg.Out > 0 {
			for id, c := range got {
				if id < 1 || id > n {
					return fmt.Sprintf("!concurrent-start/invented|repetition %d: a value that is no f(input item) was delivered (id %d)", r, id)
				}
				if c > 1 {
					return fmt.Sprintf("!concurrent-start/duplicate|repetition %d: item %d was delivered %d times", r, id, c)
				}
			}
			for i := 1; i <= n; i++ {
				if got[i] != 1 {
					return fmt.Sprintf("!concurrent-start/item-lost|repetition %d: item %d was delivered %d times (%d of %d items arrived)", r, i, got[i], len(got), n)
				}
			}
		}
	}
	return ""
}

func (w *world) consumer(c int) *consumer {
	if x, ok := w.cons[c]; ok {
		return x
	}
	x := &consumer{id: c}
	w.cons[c] = x
	return x
}

// startRead issues one advance of consumer c in its own goroutine.
func (w *world) startRead(c int) {
	x := w.consumer(c)
	if x.pending != nil {
		return
	}
	x.reads++
	if w.cfg.C == "bufchan" {
		if w.rawOut == nil {
			w.rawOut = w.source().BufferedChannel(w.pctx, w.cfg.Cap)
		}
		ch := w.rawOut
		x.pending = rt.Start(c, func() any {
			v, ok := <-ch
			if !ok {
				return readRes{err: io.EOF}
			}
			return readRes{val: v}
		})
		return
	}
	it, ctx := w.outs[w.outOf(c)], w.consCtx(c)
	if w.useNext && w.cfg.C != "multiread" {
		// Next/Value is documented as not safe for concurrent use: only where this consumer
		// owns its iterator (every construct but the concurrent-ReadOne one)
		x.pending = rt.Start(c, func() any {
			if it.Next(ctx) {
				return readRes{val: it.Value()}
			}
			return readRes{err: errNextFalse}
		})
		return
	}
	x.pending = rt.Start(c, func() any {
		v, err := it.ReadOne(ctx)
		return readRes{val: v, err: err}
	})
}

var errNextFalse = errors.New("next-false")

var spinSink atomic.Int64

// collect moves finished reads into the consumers' records.
func (w *world) collect() {
	for _, x := range w.cons {
		if x.pending == nil || !x.pending.Done() {
			continue
		}
		op := x.pending
		x.pending = nil
		if op.Pan != nil {
			x.ended, x.endErr = true, fmt.Sprintf("panic:%v", op.Pan)
			continue
		}
		r := op.Res.(readRes)
		if r.err != nil {
			x.ended, x.endErr = true, r.err.Error()
			continue
		}
		id := w.outID(r.val)
		if id < 1 || id > w.cfg.N {
			w.mu.Lock()
			w.badVals = append(w.badVals, r.val)
			w.mu.Unlock()
		}
		x.got = append(x.got, id)
	}
}

// ------------------------------------------------------------------ observation

type obs struct {
	Step    string            `json:"step"`
	Entered []int             `json:"entered"`
	Held    []int             `json:"held"`
	Got     map[string][]int  `json:"got"`
	Ended   map[string]string `json:"ended"`
	Blocked []int             `json:"blocked"`
	Closes  int               `json:"closes_blocked"`
	Run     string            `json:"run"`
	Lib     []string          `json:"lib"`
	Ops     []string          `json:"ops,omitempty"` // stacks of driver operations still running (diagnosis only)
}

var typeParams = regexp.MustCompile(`\[[^\]]*\]`)

// where names the innermost library function of a goroutine, without package path and type
// parameters - stable enough to be part of a finding key.
func where(g rt.G) string {
	for _, f := range g.Frames() {
		if strings.Contains(f, "github.com/tychoish/fun") {
			f = typeParams.ReplaceAllString(f, "")
			f = strings.TrimPrefix(f, "github.com/tychoish/")
			if i := strings.Index(f, ".func"); i > 0 {
				f = f[:i]
			}
			return f
		}
	}
	return "?"
}

func (w *world) observe(name string, snap []rt.G, base map[int]bool) obs {
	w.collect()
	o := obs{Step: name, Got: map[string][]int{}, Ended: map[string]string{}, Run: "-"}
	w.mu.Lock()
	o.Entered = append([]int{}, w.entered...)
	seen := map[int]bool{}
	for _, id := range w.entered {
		if !seen[id] && w.g.Waiting(id) > 0 {
			o.Held = append(o.Held, id)
		}
		seen[id] = true
	}
	w.mu.Unlock()
	sort.Ints(o.Held)
	for c, x := range w.cons {
		k := strconv.Itoa(c)
		o.Got[k] = append([]int{}, x.got...)
		if x.ended {
			o.Ended[k] = x.endErr
		}
		if x.pending != nil {
			o.Blocked = append(o.Blocked, c)
		}
	}
	sort.Ints(o.Blocked)
	for _, op := range w.closes {
		if !op.Done() {
			o.Closes++
		}
	}
	if w.runOp != nil {
		if w.runOp.Done() {
			o.Run = fmt.Sprint(w.runOp.Res)
		} else {
			o.Run = "blocked"
		}
	}
	// library goroutines: a tychoish/fun frame, not there before this behaviour, and not one of
	// the driver's own operations (reads, closes, Run), which are accounted for as operations
	for _, g := range rt.FunGoroutines(snap, "verif/harness/rt.Start") {
		if !base[g.ID] {
			o.Lib = append(o.Lib, where(g))
		}
	}
	// sorted; the first entry names the finding: a goroutine stuck in a channel operation before one that
	// merely waits for others (WaitGroup.Wait, a Once somebody else is running)
	rank := func(s string) int {
		switch {
		case strings.Contains(s, "fun.Chan"):
			return 0
		case strings.Contains(s, "WaitGroup") || strings.HasSuffix(s, ".Once"):
			return 2
		}
		return 1
	}
	sort.Slice(o.Lib, func(a, b int) bool {
		if ra, rb := rank(o.Lib[a]), rank(o.Lib[b]); ra != rb {
			return ra < rb
		}
		return o.Lib[a] < o.Lib[b]
	})
	for _, g := range snap {
		if strings.Contains(g.Stack, "verif/harness/rt.Start") {
			st := g.Stack
			if len(st) > 1500 {
				st = st[:1500]
			}
			o.Ops = append(o.Ops, st)
		}
	}
	return o
}

// settle runs to quiescence and requires two consecutive quiescent points to agree on every
// goroutine's state and on what the driver's operations and user functions did: a single
// snapshot taken while a goroutine is between two blocking states must never decide anything.
func (w *world) settle() ([]rt.G, error) {
	prev := ""
	for i := 0; i < 6; i++ {
		snap, err := rt.Quiesce()
		if err != nil {
			return nil, err
		}
		var sig []string
		for _, g := range snap {
			sig = append(sig, fmt.Sprintf("%d:%s", g.ID, g.State))
		}
		sort.Strings(sig)
		ndone := 0
		for _, x := range w.cons {
			if x.pending != nil && x.pending.Done() {
				ndone++
			}
		}
		for _, op := range append(append([]*rt.Op{}, w.closes...), w.free...) {
			if op.Done() {
				ndone++
			}
		}
		if w.runOp != nil && w.runOp.Done() {
			ndone++
		}
		w.mu.Lock()
		s := fmt.Sprintf("%v|%d|%d|%d", sig, ndone, len(w.entered), len(w.exited))
		w.mu.Unlock()
		if s == prev {
			return snap, nil
		}
		prev = s
	}
	return nil, rt.ErrNotQuiescent
}

// ------------------------------------------------------------------ replay

func inconclusive(in input, why string) map[string]any {
	return map[string]any{"n": in.N, "ok": true, "inconclusive": why}
}

func has(xs []int, v int) bool {
	for _, x := range xs {
		if x == v {
			return true
		}
	}
	return false
}

// replay runs one behaviour.  A schedule with a burst step is a race the Go scheduler decides: it is
// repeated (the step's arg, chosen by the spec) on fresh instances; every repetition is judged in full
// at its quiescent points, the first one that fails decides.
func replay(in input, trace bool) map[string]any {
	reps := 1
	for _, st := range in.Beh.Steps {
		if st.Op == "brel" && st.Arg > reps {
			reps = st.Arg
		}
	}
	// a re-run of a race that hit may ask for more repetitions of the same schedule
	if more, err := strconv.Atoi(os.Getenv("VH_BURST_REPS")); err == nil && reps > 1 && more > reps {
		reps = more
	}
	var res map[string]any
	r := 0
	for ; r < reps; r++ {
		res = replayOnce(in, trace, r)
		if res["ok"] != true || res["inconclusive"] != nil {
			break
		}
	}
	if reps > 1 {
		res["reps"] = reps
		res["round"] = r
	}
	return res
}

func replayOnce(in input, trace bool, round int) (result map[string]any) {
	cfg := in.Beh.Cfg
	w := newWorld(cfg, &rt.Recorder{})
	w.useNext = (in.N+round)%3 == 1
	if len(in.Beh.Steps) > 0 {
		w.callLimit = spinFactor * int64(in.Beh.Steps[0].Calls)
	}
	for i := 1; i <= cfg.N; i++ {
		w.g.Arm(i)
	}
	procs := runtime.GOMAXPROCS(0)
	defer func() {
		if runtime.GOMAXPROCS(0) != procs {
			runtime.GOMAXPROCS(procs)
		}
	}()
	base := map[int]bool{}
	for _, g := range rt.FunGoroutines(rt.Snapshot()) {
		base[g.ID] = true
	}
	var log []obs
	defer func() {
		// tear down whatever is left so that later behaviours of this process start clean
		w.g.latch.Store(false)
		for i := 1; i <= cfg.N; i++ {
			w.g.Disarm(i)
		}
		w.cancel()
		close(w.trapCh)
		for _, it := range w.outs {
			if it != nil {
				it := it
				rt.Start(-2, func() any { return it.Close() })
			}
		}
		if w.feedCh != nil {
			func() { defer func() { _ = recover() }(); close(w.feedCh) }()
		}
		if trace && result != nil {
			result["trace"] = log
		}
	}()
	if err := w.build(); err != nil {
		return map[string]any{"n": in.N, "ok": true, "inconclusive": err.Error()}
	}
	fail := func(k int, key, what string, o obs) map[string]any {
		return map[string]any{"n": in.N, "ok": false, "step": k, "key": cfg.C + "/" + key, "what": what, "obs": o,
			"cfg": cfg}
	}
	failKey := func(k int, key, what string, o obs) map[string]any {
		m := fail(k, "", what, o)
		m["key"] = key
		return m
	}
	stopName := func(s string) string {
		if s == "" {
			return "running"
		}
		return s
	}
	for k, st := range in.Beh.Steps {
		name := st.Op + ":" + strconv.Itoa(st.Arg)
		switch st.Op {
		case "read":
			w.startRead(st.Arg)
		case "run":
			w.startRun()
		case "rel":
			if w.g.Waiting(st.Arg) == 0 {
				return inconclusive(in, fmt.Sprintf("step %d: callback of item %d is not held (schedule not executable on this run)", k, st.Arg))
			}
			w.released[st.Arg] = true
			w.g.Disarm(st.Arg)
		case "brel":
			// burst: the user functions of st.Set return at the same instant.  They are let through their
			// gates with the spin latch shut, gather there (running, on processors of their own), and leave
			// together when the latch opens; no quiescence before all of them are gone.
			for _, i := range st.Set {
				if w.g.Waiting(i) == 0 {
					return inconclusive(in, fmt.Sprintf("step %d: callback of item %d is not held (schedule not executable on this run)", k, i))
				}
			}
			if want := len(st.Set) + 2; runtime.GOMAXPROCS(0) < want || runtime.GOMAXPROCS(0) < 4 {
				if want < 4 {
					want = 4
				}
				runtime.GOMAXPROCS(want)
			}
			w.g.spinning.Store(0)
			w.g.latch.Store(true)
			for _, i := range st.Set {
				w.released[i] = true
				w.g.Disarm(i)
			}
			for p := 0; int(w.g.spinning.Load()) < len(st.Set); p++ {
				if p > 50_000_000 {
					w.g.latch.Store(false)
					return inconclusive(in, fmt.Sprintf("step %d: the released user functions did not gather at the latch", k))
				}
				if p%64 == 63 {
					runtime.Gosched()
				}
			}
			w.g.OpenLatch(len(st.Set))
		case "relall":
			for i := 1; i <= cfg.N; i++ {
				w.released[i] = true
				w.g.Disarm(i)
			}
		case "close":
			it := w.outs[st.Arg-1]
			w.closes = append(w.closes, rt.Start(k, func() any { return errStr(it.Close()) }))
		case "cancel":
			if st.Arg == 0 {
				w.cancel()
			} else {
				w.consCtx(st.Arg) // a consumer that never advanced has a context all the same
				w.ccan[st.Arg]()
			}
		case "finish":
			// undisturbed completion: every user function returns, every consumer reads to the end
			for i := 1; i <= cfg.N; i++ {
				w.released[i] = true
				w.g.Disarm(i)
			}
			for c := 1; c <= w.numConsumers(); c++ {
				for j := 0; j <= cfg.N+1; j++ {
					x := w.consumer(c)
					if x.ended {
						break
					}
					w.startRead(c)
					if _, err := w.settle(); err != nil {
						return inconclusive(in, "no quiescence in finish")
					}
					w.collect()
					if x.pending != nil {
						break
					}
				}
			}
		case "freerun":
			// no gate, no stepping: every user function returns at once and every consumer drains
			// its output concurrently; the real scheduler picks the interleaving
			for i := 1; i <= cfg.N; i++ {
				w.released[i] = true
				w.g.Disarm(i)
			}
			if cfg.Out == 0 {
				w.startRun()
			}
			for c := 1; c <= w.numConsumers(); c++ {
				w.free = append(w.free, w.startDrain(c))
			}
		case "race-start":
			if why := w.raceStart(st.Arg); why != "" {
				if strings.HasPrefix(why, "!") {
					parts := strings.SplitN(why[1:], "|", 2)
					return fail(k, parts[0], parts[1], obs{Step: name})
				}
				return inconclusive(in, why)
			}
		case "race-close", "race-cancel", "race-fill-close", "race-fill-cancel":
			if why := w.race(st.Op, st.Arg, in.N); why != "" {
				return inconclusive(in, why)
			}
		case "end":
		default:
			panic("unknown op " + st.Op)
		}
		snap, err := w.settle()
		if err != nil {
			return inconclusive(in, "no quiescence after step "+strconv.Itoa(k))
		}
		o := w.observe(name, snap, base)
		log = append(log, o)

		// ---- the oracle: generic rules, parameterised by the spec's allowed sets ----
		// every callback invocation is for an input item not invoked before
		cnt := map[int]int{}
		for _, id := range o.Entered {
			cnt[id]++
			if id < 1 || id > cfg.N {
				return fail(k, "callback/invented-item", fmt.Sprintf("user function called with a value that is no input item (id %d)", id), o)
			}
			if cnt[id] > 1 {
				return fail(k, "callback/duplicate", fmt.Sprintf("user function called twice for item %d", id), o)
			}
		}
		// every output value is f(input item), not output before, and allowed by the spec at this point
		dcnt := map[int]int{}
		total := 0
		for c, got := range o.Got {
			prev := 0
			for _, id := range got {
				total++
				dcnt[id]++
				if id < 1 || id > cfg.N {
					return fail(k, "output/invented", fmt.Sprintf("consumer %s received a value that is not f(input item): id %d", c, id), o)
				}
				if dcnt[id] > 1 {
					return fail(k, "output/duplicate", fmt.Sprintf("item %d was delivered twice", id), o)
				}
				if !has(st.May, id) {
					return fail(k, "output/not-allowed-yet", fmt.Sprintf("item %d delivered although the spec does not allow it at this point (allowed %v)", id, st.May), o)
				}
				if cfg.Ord && id < prev {
					return fail(k, "output/order", fmt.Sprintf("consumer %s received item %d after item %d", c, id, prev), o)
				}
				prev = id
			}
			if cfg.Ord && len(o.Got) == 1 {
				for j, id := range got {
					if id != j+1 {
						return fail(k, "output/order", fmt.Sprintf("consumer %s: output #%d is item %d", c, j+1, id), o)
					}
				}
			}
		}
		// the end of an output may be observed only where the spec allows it
		for c, e := range o.Ended {
			ci, _ := strconv.Atoi(c)
			if strings.HasPrefix(e, "panic:") {
				return fail(k, stopName(st.Stop)+"/read-panics", fmt.Sprintf("consumer %s: advance panicked: %s", c, e), o)
			}
			if !has(st.Eofs, ci) {
				return fail(k, "eof/premature", fmt.Sprintf("consumer %s saw the end of its output (%s) after %d of %d items were delivered and nothing stopped the run", c, e, total, cfg.N), o)
			}
		}
		if len(w.panics) > 0 {
			return failKey(k, "iterator/stop-races-advance/advance-panics", fmt.Sprintf("%d operation(s) panicked while a stop raced with the consumers' advances, e.g. %s", len(w.panics), w.panics[0]), o)
		}
		for _, op := range w.free {
			if !op.Done() {
				if st.Op == "freerun" {
					return fail(k, "stall/free-running-consumer-blocked", "a free-running consumer (or Run) has not reached the end of the output although every user function returns at once", o)
				}
				return fail(k, stopName(st.Stop)+"/run-blocked", "a Run raced by a cancellation has not returned", o)
			}
		}
		// a worker that keeps invoking a context-respecting user function after the stop never exits
		if n := w.trapped.Load(); n > 0 {
			return fail(k, stopName(st.Stop)+"/worker-spins-after-stop", fmt.Sprintf("user functions were invoked %d times with an already cancelled context (each returned the context's error at once) - more than %d x the %d invocations a whole run can need; %d worker(s) were caught in the loop (options %q): they never exit", w.deadCalls.Load(), spinFactor, st.Calls, n, cfg.Opt), o)
		}
		// Close never blocks
		if o.Closes > 0 {
			return fail(k, stopName(st.Stop)+"/close-blocks", "a Close call has not returned by quiescence", o)
		}
		// a consumer that must have returned is not blocked
		for _, c := range st.Must {
			if has(o.Blocked, c) {
				if st.Stop != "" && st.Stop != "exhaust" && has(st.Live, c) {
					// C04 "a finite input always leads to io.EOF (no deadlock)": this consumer did not stop
					if len(o.Held) == 0 {
						return fail(k, st.Stop+"/live-consumer-blocked", fmt.Sprintf("consumer %d - its own output is open and its own context is live - is blocked in its advance at quiescence after a sibling was stopped (%s) and no user function is held: nothing serves the pipe any more and nobody closed it, the finite input no longer leads to io.EOF (%d of %d delivered)", c, st.Stop, total, cfg.N), o)
					}
					continue
				}
				if st.Stop != "" && st.Stop != "exhaust" {
					return fail(k, st.Stop+"/reader-still-blocked", fmt.Sprintf("consumer %d is still blocked in its advance after the stop (%s)", c, st.Stop), o)
				}
				if len(o.Held) == 0 {
					return fail(k, "stall/reader-blocked-nothing-pending", fmt.Sprintf("consumer %d is blocked although no user function is held and the input is finite: it can never return (%d of %d delivered)", c, total, cfg.N), o)
				}
			}
		}
		// worker groups: Run returns exactly when the spec says so
		if w.runOp != nil {
			switch st.Run {
			case "must":
				if o.Run == "blocked" && len(o.Held) == 0 {
					return fail(k, stopName(st.Stop)+"/run-blocked", "the worker group has not returned although every item was processed / the run was stopped and no user function is held", o)
				}
			case "no":
				if o.Run != "blocked" {
					return fail(k, "run/returned-early", fmt.Sprintf("the worker group returned (%s) before every item was processed", o.Run), o)
				}
			}
		}
		// at the end: output bag = f(input bag)
		if st.Full {
			if cfg.Fn {
				for i := 1; i <= cfg.N; i++ {
					if cnt[i] != 1 {
						return fail(k, "end/item-not-processed", fmt.Sprintf("item %d was handed to the user function %d times", i, cnt[i]), o)
					}
				}
			}
			if cfg.Out > 0 {
				for i := 1; i <= cfg.N; i++ {
					if dcnt[i] != 1 {
						return fail(k, "end/item-lost", fmt.Sprintf("item %d was delivered %d times although the run completed (delivered %d of %d)", i, dcnt[i], total, cfg.N), o)
					}
				}
			}
		}
		// no library goroutine remains
		if st.Leak && len(o.Held) == 0 && len(o.Lib) > 0 {
			return fail(k, stopName(st.Stop)+"/goroutine-leak/"+o.Lib[0], fmt.Sprintf("%d library goroutine(s) remain after the consumer stopped (%s): %v", len(o.Lib), st.Stop, o.Lib), o)
		}
	}
	res := map[string]any{"n": in.N, "ok": true, "steps": len(in.Beh.Steps)}
	if len(log) > 0 {
		last := log[len(log)-1]
		res["delivered"] = func() int {
			t := 0
			for _, g := range last.Got {
				t += len(g)
			}
			return t
		}()
		res["entered"] = len(last.Entered)
	}
	return res
}
