package main

// C11: Orchestrator, Group, WorkerPool / HandlerWorkerPool, Cleanup.  replayC11 executes one
// behaviour of spec/srv/{OrchAbs,GroupAbs,PoolAbs,CleanupAbs}.tla: harness-supplied member
// services / jobs with counters, gates and scripted outcomes; observation at quiescence.

import (
	"context"
	"errors"
	"fmt"
	"io"
	"runtime"
	"sort"
	"strings"
	"sync"
	"sync/atomic"

	"github.com/tychoish/fun"
	"github.com/tychoish/fun/ers"
	"github.com/tychoish/fun/pubsub"
	"github.com/tychoish/fun/srv"
	"verif/harness/rt"
)

type unitCfg struct {
	Name string `json:"name"`
	Kind string `json:"kind"` // ok | error | panic | eof | canceled | deadline (errors wrapping io.EOF / a context error)
	Mode string `json:"mode"` // gate: returns when the driver releases it; ctx: when its context ends
	Pre  string `json:"pre"`  // orchestrator / group members: new | running | finished (started by the client itself before)
}

type ccfg struct {
	Comp    string    `json:"comp"` // orch | group | pool | hpool | cleanup
	Units   []unitCfg `json:"units"`
	Workers int       `json:"workers"`
	Cont    bool      `json:"cont"`
}

type cntExp struct {
	ID    string `json:"id"`
	Allow []int  `json:"allow"`
}

type cexp struct {
	Ops     []opExp  `json:"ops"`
	Cnt     []cntExp `json:"cnt"`     // allowed invocation counts per unit
	Started []int    `json:"started"` // allowed numbers of units invoked so far; empty = not judged
	Seen    []opExp  `json:"seen"`    // hpool: what the observer must have seen (alt.must) - judged when present
}

type cstep struct {
	Op  string `json:"op"`
	ID  string `json:"id"`
	Arg string `json:"arg"`
	Exp cexp   `json:"exp"`
}

type cbeh struct {
	Cfg   ccfg    `json:"cfg"`
	Steps []cstep `json:"steps"`
}

type unit struct {
	cfg     unitCfg
	enter   atomic.Int64
	exit    atomic.Int64
	errV    error
	panV    error
	svc     *srv.Service       // orch / group members
	xcancel context.CancelFunc // orch: context of a member the client started itself
}

type c11World struct {
	cfg      ccfg
	g        *rt.Gates
	rec      *rt.Recorder
	units    map[string]*unit
	order    []string
	ctx      context.Context
	cancel   context.CancelFunc
	orch     *srv.Orchestrator
	sut      *srv.Service // group / pool / cleanup service (orch: the orchestrator's service)
	queue    *pubsub.Queue[fun.Worker]
	obsMu    sync.Mutex
	obs      []error
	holdUsed bool
}

// body is what every member Run / job does: count, log, wait for its end condition, scripted outcome
func (w *c11World) body(u *unit, ctx context.Context) error {
	u.enter.Add(1)
	w.rec.Log(rt.Event{"ev": "cb_enter", "fn": u.cfg.Name})
	if u.cfg.Mode == "ctx" {
		<-ctx.Done()
	} else {
		w.g.Arrive("u:" + u.cfg.Name)
	}
	w.rec.Log(rt.Event{"ev": "cb_exit", "fn": u.cfg.Name, "out": u.cfg.Kind})
	u.exit.Add(1)
	switch u.cfg.Kind {
	case "ok":
		return nil
	case "panic":
		panic(u.panV)
	}
	return u.errV
}

// failure builds the unit's own error value: a plain error, or one that wraps one of the errors
// worker groups treat as stop signals (io.EOF, context.Canceled, context.DeadlineExceeded).
// errors.Is(x, u.errV) identifies it by pointer in every case.
func unitFailure(uc unitCfg) error {
	switch uc.Kind {
	case "eof":
		return fmt.Errorf("verif: %s failed: %w", uc.Name, io.EOF)
	case "canceled":
		return fmt.Errorf("verif: %s failed: %w", uc.Name, context.Canceled)
	case "deadline":
		return fmt.Errorf("verif: %s failed: %w", uc.Name, context.DeadlineExceeded)
	}
	return errors.New("verif: " + uc.Name + " failed")
}

func newC11World(cfg ccfg) *c11World {
	w := &c11World{cfg: cfg, g: rt.NewGates(), rec: &rt.Recorder{}, units: map[string]*unit{}}
	w.ctx, w.cancel = context.WithCancel(context.Background())
	for _, uc := range cfg.Units {
		u := &unit{cfg: uc, errV: unitFailure(uc), panV: errors.New("verif: " + uc.Name + " panicked")}
		w.units[uc.Name] = u
		w.order = append(w.order, uc.Name)
		w.g.Arm("u:" + uc.Name)
		if cfg.Comp == "orch" || cfg.Comp == "group" {
			uu := u
			u.svc = &srv.Service{Name: uc.Name, Run: func(ctx context.Context) error { return w.body(uu, ctx) }}
		}
	}
	return w
}

func (w *c11World) job(u *unit) fun.Worker {
	return func(ctx context.Context) error { return w.body(u, ctx) }
}

// prestart brings the members the client started itself (pre = running / finished), each with a
// context of its own, into their state before the behaviour begins.
func (w *c11World) prestart() string {
	for _, name := range w.order {
		u := w.units[name]
		if u.cfg.Pre == "new" || u.cfg.Pre == "" {
			continue
		}
		xctx, xc := context.WithCancel(context.Background())
		u.xcancel = xc
		if err := u.svc.Start(xctx); err != nil {
			return "pre-start failed: " + err.Error()
		}
		if u.cfg.Pre == "finished" {
			rt.Quiesce()
			if u.cfg.Mode == "ctx" {
				xc()
			} else {
				w.g.ReleaseOne("u:" + name)
			}
			_ = u.svc.Wait()
		}
	}
	if _, err := rt.Quiesce(); err != nil {
		return "no quiescence during setup"
	}
	return ""
}

// aggregate result of a Wait: which unit sentinels errors.Is finds
func (w *c11World) classify(err error) opRes {
	out := []string{}
	for _, n := range w.order {
		u := w.units[n]
		if errors.Is(err, u.errV) {
			out = append(out, "e:"+n)
		}
		if errors.Is(err, u.panV) {
			out = append(out, "p:"+n)
		}
	}
	sort.Strings(out)
	return opRes{K: "agg", Is: out, Pan: errors.Is(err, ers.ErrRecoveredPanic), Nil: err == nil}
}

func errRes(err error) opRes {
	if err == nil {
		return opRes{K: "nil"}
	}
	return opRes{K: "err"}
}

func (w *c11World) opts() []fun.OptionProvider[*fun.WorkerGroupConf] {
	o := []fun.OptionProvider[*fun.WorkerGroupConf]{fun.WorkerGroupConfNumWorkers(w.cfg.Workers)}
	if w.cfg.Cont {
		o = append(o, fun.WorkerGroupConfContinueOnError(), fun.WorkerGroupConfContinueOnPanic())
	}
	return o
}

func c11Key(comp, what string) string { return comp + "/" + what }

func replayC11(n int, b cbeh) map[string]any {
	w := newC11World(b.Cfg)
	setHooks(w.g)
	defer setHooks(nil)
	comp := b.Cfg.Comp
	if comp == "hpool" {
		comp = "pool"
	}
	ops := map[string]*rt.Op{}
	seen := map[string]bool{}
	waitIDs := map[string]bool{}
	started := false
	teardown := func() {
		untarget(ptLaunched)
		w.g.Disarm("grp-launched")
		for _, name := range w.order {
			w.g.Disarm("u:" + name)
			if u := w.units[name]; u.xcancel != nil {
				u.xcancel()
			}
		}
		w.cancel()
		if w.sut != nil {
			w.sut.Close()
		}
	}
	res := func(m map[string]any) map[string]any {
		teardown()
		rt.Quiesce()
		m["hist"] = w.rec.Events()
		return m
	}
	if b.Cfg.Comp == "cleanup" {
		// the shutdown pool has one worker per CPU (runtime.NumCPU, fixed at process start):
		// workers = 0 asks for at least as many CPUs as jobs, workers = k for exactly k
		// (vh-srv replay-c11 ncpu=k pins the process accordingly)
		if b.Cfg.Workers == 0 && runtime.NumCPU() < len(b.Cfg.Units) {
			return inconclusive(n, "fewer CPUs than cleanup jobs: WorkerPerCPU would serialise them")
		}
		if b.Cfg.Workers > 0 && runtime.NumCPU() != b.Cfg.Workers {
			return inconclusive(n, fmt.Sprintf("the behaviour needs runtime.NumCPU() = %d, have %d (run with ncpu=%d)", b.Cfg.Workers, runtime.NumCPU(), b.Cfg.Workers))
		}
	}
	// --- set up the component under test
	switch b.Cfg.Comp {
	case "orch":
		w.orch = &srv.Orchestrator{Name: "sut"}
		w.sut = w.orch.Service()
		if why := w.prestart(); why != "" {
			return res(inconclusive(n, why))
		}
	case "group":
		if why := w.prestart(); why != "" {
			return res(inconclusive(n, why))
		}
		svcs := []*srv.Service{}
		for _, name := range w.order {
			svcs = append(svcs, w.units[name].svc)
		}
		w.sut = srv.Group(fun.SliceIterator(svcs))
	case "pool":
		w.queue = pubsub.NewUnlimitedQueue[fun.Worker]()
		w.sut = srv.WorkerPool(w.queue, w.opts()...)
	case "hpool":
		w.queue = pubsub.NewUnlimitedQueue[fun.Worker]()
		w.sut = srv.HandlerWorkerPool(w.queue, func(err error) {
			if err != nil {
				w.obsMu.Lock()
				w.obs = append(w.obs, err)
				w.obsMu.Unlock()
			}
		}, w.opts()...)
	case "cleanup":
		w.queue = pubsub.NewUnlimitedQueue[fun.Worker]()
		w.sut = srv.Cleanup(w.queue, 0)
	default:
		panic("unknown component " + b.Cfg.Comp)
	}
	call := func(id, op string, fn func() opRes) {
		ops[id] = rt.Start(0, func() any {
			w.rec.Log(rt.Event{"ev": "call", "op": op, "id": id})
			r := fn()
			w.rec.Log(rt.Event{"ev": "ret", "op": op, "id": id, "res": r.K})
			return r
		})
	}
	for k, st := range b.Steps {
		switch st.Op {
		case "add":
			u := w.units[st.Arg]
			if b.Cfg.Comp == "orch" {
				call(st.ID, "add", func() opRes { return errRes(w.orch.Add(u.svc)) })
			} else {
				call(st.ID, "add", func() opRes { return errRes(w.queue.Add(w.job(u))) })
			}
		case "burst":
			// several Adds immediately followed by Close, no quiescence in between
			names := strings.Split(st.Arg, ",")
			call(st.ID, "burst", func() opRes {
				for _, nm := range names {
					if err := w.queue.Add(w.job(w.units[nm])); err != nil {
						return opRes{K: "err"}
					}
				}
				w.rec.Log(rt.Event{"ev": "act", "what": "close"})
				w.sut.Close()
				return opRes{K: "nil"}
			})
		case "start":
			started = true
			call(st.ID, "start", func() opRes { return classifyStart(w.sut.Start(w.ctx)) })
		case "starthold":
			// Group: every Start that reaches yield point Start.launched is parked (the group's own
			// and each member's); all but the last arrival are released again, which leaves one
			// member parked inside its Start - its Run already invoked - while the group's Run is
			// still waiting for its start goroutines.
			started = true
			w.holdUsed = true
			target(ptLaunched, "grp-launched", true)
			call(st.ID, "start", func() opRes { return classifyStart(w.sut.Start(w.ctx)) })
			if _, err := rt.Quiesce(); err != nil || w.g.Waiting("grp-launched") != 1+len(w.order) {
				return res(inconclusive(n, "yield point "+ptLaunched+" not reached by the group and all members"))
			}
			untarget(ptLaunched)
			for i := 0; i < len(w.order); i++ {
				w.g.ReleaseOne("grp-launched")
			}
			if _, err := rt.Quiesce(); err != nil || !ops[st.ID].Done() || w.g.Waiting("grp-launched") != 1 {
				return res(inconclusive(n, "the goroutine left at "+ptLaunched+" is not a member's Start"))
			}
		case "relhold":
			if w.g.Waiting("grp-launched") != 1 {
				return res(inconclusive(n, "yield point "+ptLaunched+" not reached"))
			}
			w.g.Disarm("grp-launched")
		case "cancel":
			w.rec.Log(rt.Event{"ev": "act", "what": "cancel"})
			w.cancel()
		case "close":
			w.rec.Log(rt.Event{"ev": "act", "what": "close"})
			w.sut.Close()
		case "xcancel":
			w.rec.Log(rt.Event{"ev": "act", "what": "xcancel", "id": st.Arg})
			w.units[st.Arg].xcancel()
		case "finish":
			if !w.g.ReleaseOne("u:" + st.Arg) {
				return res(inconclusive(n, fmt.Sprintf("schedule diverged: %s is not in flight at step %d", st.Arg, k)))
			}
		case "wait":
			waitIDs[st.ID] = true
			if b.Cfg.Comp == "orch" {
				call(st.ID, "wait", func() opRes { return w.classify(w.orch.Wait()) })
			} else {
				call(st.ID, "wait", func() opRes { return w.classify(w.sut.Wait()) })
			}
		default:
			panic("unknown op " + st.Op)
		}
		if _, err := rt.Quiesce(); err != nil {
			return res(inconclusive(n, fmt.Sprintf("no quiescence after step %d", k)))
		}
		var verdict map[string]any
		for attempt := 0; attempt < 3; attempt++ {
			verdict = w.compare(n, k, comp, st, ops, seen, waitIDs)
			if verdict == nil {
				break
			}
			for y := 0; y < 200; y++ {
				runtime.Gosched()
			}
			if _, err := rt.Quiesce(); err != nil {
				return res(inconclusive(n, fmt.Sprintf("no quiescence after step %d", k)))
			}
		}
		if verdict != nil {
			return res(verdict)
		}
	}
	// end: everything must be able to finish, and nothing may have run twice
	teardown()
	if _, err := rt.Quiesce(); err != nil {
		return res(inconclusive(n, "no quiescence at end"))
	}
	for _, name := range w.order {
		if c := w.units[name].enter.Load(); c > 1 {
			return res(failure(n, len(b.Steps), c11Key(comp, "unit-ran-twice"), fmt.Sprintf("%s ran %d times", name, c)))
		}
	}
	for id, op := range ops {
		if !op.Done() && (started || !waitIDs[id]) {
			return res(failure(n, len(b.Steps), c11Key(comp, "operation-stuck-after-shutdown"), id+" has not returned after shutdown and release of every unit"))
		}
	}
	return map[string]any{"n": n, "ok": true, "steps": len(b.Steps), "hist": w.rec.Events()}
}

// onlyFoundRunning reports whether a non-conforming orchestrator Wait is explained by members the
// client had started itself: it returned while one of them is still in flight, or the only
// failures missing from its result are theirs.
func (w *c11World) onlyFoundRunning(as []alt, r opRes) bool {
	return w.onlyPre(as, r, func(pre string) bool { return pre == "running" })
}

// onlyPre: the non-conforming Wait is explained by members in the pre-states accepted by sel alone
func (w *c11World) onlyPre(as []alt, r opRes, sel func(string) bool) bool {
	if len(as) == 1 && as[0].K == "blocked" {
		other := false
		running := false
		for _, name := range w.order {
			u := w.units[name]
			if u.enter.Load() > u.exit.Load() {
				if sel(u.cfg.Pre) {
					running = true
				} else {
					other = true
				}
			}
		}
		return running && !other
	}
	have := map[string]bool{}
	for _, s := range r.Is {
		have[s] = true
	}
	found := false
	for _, a := range as {
		for _, m := range a.Must {
			if !have[m] {
				if u := w.units[m[2:]]; u == nil || !sel(u.cfg.Pre) {
					return false
				}
				found = true
			}
		}
	}
	return found
}

func (w *c11World) compare(n, k int, comp string, st cstep, ops map[string]*rt.Op, seen map[string]bool, waitIDs map[string]bool) map[string]any {
	where := fmt.Sprintf("step %d (%s %s %s)", k, st.Op, st.ID, st.Arg)
	for _, e := range st.Exp.Ops {
		op := ops[e.ID]
		if op == nil || seen[e.ID] {
			continue
		}
		if !op.Done() {
			if !allows(e.Allow, "blocked") {
				what := "operation-stuck"
				if waitIDs[e.ID] {
					what = "wait-stuck"
				}
				return failure(n, k, c11Key(comp, what), fmt.Sprintf("%s has not returned at quiescence, %s; spec allows %+v", e.ID, where, e.Allow))
			}
			continue
		}
		if op.Pan != nil {
			return failure(n, k, c11Key(comp, "operation-panicked"), fmt.Sprintf("%s panicked: %v", e.ID, op.Pan))
		}
		r, _ := op.Res.(opRes)
		okAlt := false
		for _, a := range e.Allow {
			if matches(a, r) {
				okAlt = true
			}
		}
		if !okAlt {
			what := "operation-result"
			if waitIDs[e.ID] {
				what = "wait-result-misses-failure"
				if len(e.Allow) == 1 && e.Allow[0].K == "blocked" {
					what = "wait-returned-before-all-returned"
				}
				if comp == "group" && w.holdUsed {
					// both symptoms of one predicate: a member started while the group's context
					// ended during the start phase is awaited
					what = "member-started-during-cancel-not-awaited"
				}
				if comp == "group" && !w.holdUsed && w.onlyPre(e.Allow, r, func(pre string) bool { return pre == "running" || pre == "finished" }) {
					// both symptoms of one predicate: a member that somebody else started before
					// the group did (still running, or already finished) is awaited and its
					// failure collected
					what = "member-started-elsewhere-not-awaited"
				}
				if comp == "orch" && w.onlyFoundRunning(e.Allow, r) {
					// both symptoms of one predicate: a service found already running is awaited
					what = "found-running-service-not-awaited"
				}
			}
			return failure(n, k, c11Key(comp, what), fmt.Sprintf("%s returned %v at %s; spec allows %+v", e.ID, r, where, e.Allow))
		}
		seen[e.ID] = true
	}
	total := 0
	for _, name := range w.order {
		total += int(w.units[name].enter.Load())
	}
	diverged := ""
	for _, c := range st.Exp.Cnt {
		got := int(w.units[c.ID].enter.Load())
		ok, max := false, 0
		for _, a := range c.Allow {
			if a == got {
				ok = true
			}
			if a > max {
				max = a
			}
		}
		switch {
		case ok:
		case got > 1:
			return failure(n, k, c11Key(comp, "unit-ran-twice"), fmt.Sprintf("%s ran %d times at %s", c.ID, got, where))
		case got > max:
			return failure(n, k, c11Key(comp, "unit-ran-unexpectedly"), fmt.Sprintf("%s has run at %s although the spec does not allow it (yet)", c.ID, where))
		default:
			diverged = c.ID
		}
	}
	if diverged != "" {
		return failure(n, k, c11Key(comp, "accepted-unit-not-run"), fmt.Sprintf("%s has not been run by quiescence at %s", diverged, where))
	}
	if len(st.Exp.Started) > 0 {
		ok := false
		for _, a := range st.Exp.Started {
			if a == total {
				ok = true
			}
		}
		if !ok {
			what := "accepted-unit-not-run"
			if total > st.Exp.Started[len(st.Exp.Started)-1] {
				what = "unit-ran-unexpectedly"
			}
			return failure(n, k, c11Key(comp, what), fmt.Sprintf("%d units have been invoked at %s; spec allows %v", total, where, st.Exp.Started))
		}
	}
	for _, e := range st.Exp.Seen {
		w.obsMu.Lock()
		joined := errors.Join(w.obs...)
		w.obsMu.Unlock()
		r := w.classify(joined)
		okAlt := false
		for _, a := range e.Allow {
			if matches(a, r) {
				okAlt = true
			}
		}
		if !okAlt {
			return failure(n, k, c11Key(comp, "handler-misses-failure"), fmt.Sprintf("the observer has seen %v at %s; spec requires %+v", r, where, e.Allow))
		}
	}
	return nil
}
