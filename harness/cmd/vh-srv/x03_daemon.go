package main

// X03 (extra check, no listed property): srv.Daemon.  replayX03d executes one behaviour of
// spec/srv/DaemonAbs.tla: a harness-supplied base service whose Run counts its invocations,
// remembers the context it was given and is parked until the driver lets it return with a
// chosen outcome (mode "ctx": also when that context ends); observation at quiescence.
//
//	vh-srv replay-x03d < behaviours.ndjson
//
// The sub-command is registered from init() so that main.go (C10 / C11 paths) is untouched.
// Expectations are never computed here: every step carries the allowed observations printed
// by TLC.  Where the documentation and the code differ the spec prints both outcomes and the
// branch it continues with; an allowed outcome other than that branch truncates the behaviour.

import (
	"context"
	"encoding/json"
	"errors"
	"fmt"
	"os"
	"runtime"
	"sort"
	"strconv"
	"sync"
	"sync/atomic"
	"time"

	"github.com/tychoish/fun/ers"
	"github.com/tychoish/fun/srv"
	"verif/harness/rt"
)

func init() {
	if len(os.Args) > 1 && os.Args[1] == "replay-x03d" {
		srv.VerifHook = hook
		rt.ReadLines(func(_ int, raw json.RawMessage) {
			var in struct {
				N   int   `json:"n"`
				Beh d3beh `json:"beh"`
			}
			if err := json.Unmarshal(raw, &in); err != nil {
				panic(err)
			}
			rt.Emit(map[string]any{"begin": in.N})
			rt.Flush()
			rt.Emit(replayX03d(in.N, in.Beh))
			rt.Flush()
		})
		rt.Flush()
		os.Exit(0)
	}
	if len(os.Args) > 3 && os.Args[1] == "record-x03d" {
		srv.VerifHook = hook
		n, _ := strconv.Atoi(os.Args[2])
		seed, _ := strconv.Atoi(os.Args[3])
		recordX03d(n, int64(seed))
		rt.Flush()
		os.Exit(0)
	}
}

type d3cfg struct {
	Mode   string `json:"mode"`   // gate | ctx
	Pace   string `json:"pace"`   // zero (minInterval 0) | never (minInterval 1h)
	Shut   string `json:"shut"`   // absent | ok | error | panic
	Clean  string `json:"clean"`  // absent | ok | error | panic
	Eh     string `json:"eh"`     // absent | ok | late (set on the base service after Daemon())
	Ctxout string `json:"ctxout"` // what a ctx-mode base run returns when its context ends
}

type d3alt struct {
	K      string   `json:"k"` // blocked | nil | done | agg
	Must   []string `json:"must"`
	Forbid []string `json:"forbid"`
	Pan    string   `json:"pan"` // t | f | any
	Nil    string   `json:"nil"` // t | f | any
}

type d3opExp struct {
	ID    string  `json:"id"`
	Allow []d3alt `json:"allow"`
}

type d3cnt struct {
	ID     string `json:"id"`
	Allow  []int  `json:"allow"`
	Branch int    `json:"branch"`
}

type d3exp struct {
	Ops     []d3opExp `json:"ops"`
	Cnt     []d3cnt   `json:"cnt"` // run, shut, clean, eh, inflight; branch -1: no single continuation
	Pastctx string    `json:"pastctx"`
	Curctx  string    `json:"curctx"`
}

type d3step struct {
	Op  string `json:"op"`
	ID  string `json:"id"`
	Arg string `json:"arg"`
	Exp d3exp  `json:"exp"`
}

type d3beh struct {
	Cfg   d3cfg    `json:"cfg"`
	Steps []d3step `json:"steps"`
}

type d3res struct {
	K   string
	Is  []string
	Pan bool
	Nil bool
}

func (r d3res) String() string {
	if r.K != "agg" {
		return r.K
	}
	return fmt.Sprintf("agg{is=%v pan=%v nil=%v}", r.Is, r.Pan, r.Nil)
}

type d3world struct {
	cfg     d3cfg
	rec     *rt.Recorder
	ctx     context.Context
	cancel  context.CancelFunc
	rel     chan string // the driver's "return now with this outcome"
	enter   atomic.Int64
	exit    atomic.Int64
	cnt     map[string]*atomic.Int64
	mu      sync.Mutex
	toks    map[string]error
	rctx    []context.Context // context of base run i+1
	done    []bool            // base run i+1 has returned
	sut     *srv.Service
	auto    func(n int, ctx context.Context) string // record mode: the base run decides by itself when and how to return
	late    bool                                    // a burst was followed by one more base run (coverage only)
	optkept bool                                    // a Wait reported an error the spec leaves open (coverage only)
}

func (w *d3world) tok(name string, cause error) error {
	w.mu.Lock()
	defer w.mu.Unlock()
	if e, ok := w.toks[name]; ok {
		return e
	}
	var e error
	if cause != nil {
		e = fmt.Errorf("verif: %s: %w", name, cause)
	} else {
		e = errors.New("verif: " + name)
	}
	w.toks[name] = e
	return e
}

// body of the base service's Run
func (w *d3world) run(ctx context.Context) error {
	n := int(w.enter.Add(1))
	w.mu.Lock()
	w.rctx = append(w.rctx, ctx)
	w.done = append(w.done, false)
	w.mu.Unlock()
	w.rec.Log(rt.Event{"ev": "cb_enter", "fn": "run", "n": n, "argnil": 0})
	var k string
	if w.auto != nil {
		k = w.auto(n, ctx)
	} else if w.cfg.Mode == "ctx" {
		select {
		case k = <-w.rel:
		case <-ctx.Done():
			k = w.cfg.Ctxout
		}
	} else {
		k = <-w.rel
	}
	w.rec.Log(rt.Event{"ev": "cb_exit", "fn": "run", "n": n, "out": k})
	w.mu.Lock()
	w.done[n-1] = true
	w.mu.Unlock()
	defer w.exit.Add(1)
	switch k {
	case "ok":
		return nil
	case "error":
		return w.tok(fmt.Sprintf("e%d", n), nil)
	case "canceled":
		return w.tok(fmt.Sprintf("e%d", n), context.Canceled)
	case "deadline":
		return w.tok(fmt.Sprintf("e%d", n), context.DeadlineExceeded)
	case "panic":
		panic(w.tok(fmt.Sprintf("p%d", n), nil))
	}
	panic("verif: unknown outcome " + k)
}

func (w *d3world) phase(name, kind string) func() error {
	if kind == "absent" {
		return nil
	}
	up := map[string]string{"shut": "Shut", "clean": "Clean"}[name]
	return func() error {
		w.cnt[name].Add(1)
		w.rec.Log(rt.Event{"ev": "cb_enter", "fn": name, "n": 0, "argnil": 0})
		w.rec.Log(rt.Event{"ev": "cb_exit", "fn": name, "n": 0, "out": kind})
		switch kind {
		case "error":
			return w.tok("e"+up, nil)
		case "panic":
			panic(w.tok("p"+up, nil))
		}
		return nil
	}
}

func newD3World(cfg d3cfg) *d3world {
	w := &d3world{cfg: cfg, rec: &rt.Recorder{}, rel: make(chan string), toks: map[string]error{},
		cnt: map[string]*atomic.Int64{"shut": {}, "clean": {}, "eh": {}}}
	w.ctx, w.cancel = context.WithCancel(context.Background())
	w.rec.Log(rt.Event{"ev": "cfg", "mode": cfg.Mode, "pace": cfg.Pace, "shut": cfg.Shut, "clean": cfg.Clean, "eh": cfg.Eh, "ctxout": cfg.Ctxout})
	base := &srv.Service{Name: "base", Run: w.run, Shutdown: w.phase("shut", cfg.Shut), Cleanup: w.phase("clean", cfg.Clean)}
	eh := func(err error) {
		w.cnt["eh"].Add(1)
		w.rec.Log(rt.Event{"ev": "cb_enter", "fn": "eh", "n": 0, "argnil": b2i(err == nil)})
		w.rec.Log(rt.Event{"ev": "cb_exit", "fn": "eh", "n": 0, "out": "ok"})
	}
	if cfg.Eh == "ok" {
		base.ErrorHandler.Set(eh)
	}
	interval := time.Duration(0)
	if cfg.Pace == "never" {
		interval = time.Hour
	}
	w.sut = srv.Daemon(base, interval)
	if cfg.Eh == "late" {
		base.ErrorHandler.Set(eh)
	}
	return w
}

func (w *d3world) classify(err error) d3res {
	out := []string{}
	w.mu.Lock()
	for name, e := range w.toks {
		if errors.Is(err, e) {
			out = append(out, name)
		}
	}
	w.mu.Unlock()
	sort.Strings(out)
	return d3res{K: "agg", Is: out, Pan: errors.Is(err, ers.ErrRecoveredPanic), Nil: err == nil}
}

// d3match: "" when r is allowed by a, otherwise the violated clause
func d3match(a d3alt, r d3res) string {
	if a.K != r.K {
		return "kind"
	}
	if a.K != "agg" {
		return ""
	}
	have := map[string]bool{}
	for _, s := range r.Is {
		have[s] = true
	}
	for _, m := range a.Must {
		if !have[m] {
			return "collected-error-missing"
		}
	}
	for _, m := range a.Forbid {
		if have[m] {
			return "dropped-error-reported"
		}
	}
	if a.Pan == "t" && !r.Pan || a.Pan == "f" && r.Pan {
		return "panic-flag"
	}
	if a.Nil == "t" && !r.Nil || a.Nil == "f" && r.Nil {
		return "nil-ness"
	}
	return ""
}

var d3sink, d3impatient atomic.Int64

// d3spin: pseudo-random number of busy iterations between the two halves of a burst
func d3spin(n, k int) int {
	seed, _ := strconv.Atoi(os.Getenv("VERIF_SEED"))
	x := uint64(n+1)*0x9E3779B97F4A7C15 ^ uint64(k+1)*0xBF58476D1CE4E5B9 ^ uint64(seed+1)*0x94D049BB133111EB
	x ^= x >> 29
	switch x % 4 {
	case 0:
		return 0
	case 1:
		return int(x>>8) % 300
	case 2:
		return int(x>>8) % 3000
	}
	return int(x>>8) % 30000
}

func (w *d3world) logRet(op, id string, r d3res) {
	is := r.Is
	if is == nil {
		is = []string{}
	}
	w.rec.Log(rt.Event{"ev": "ret", "op": op, "id": id, "res": r.K, "is": is, "pan": b2i(r.Pan), "nil": b2i(r.Nil)})
}

// stop cancels the parent context, logged on both sides (DaemonTrace: stopBegun / stopDone)
func (w *d3world) stop() {
	w.rec.Log(rt.Event{"ev": "act", "what": "cancel"})
	w.cancel()
	w.rec.Log(rt.Event{"ev": "act", "what": "cancelled"})
}

func d3fail(n, k int, what, msg string) map[string]any {
	return failure(n, k, "daemon/"+what, msg)
}

func replayX03d(n int, b d3beh) map[string]any {
	w := newD3World(b.Cfg)
	ops := map[string]*rt.Op{}
	seen := map[string]bool{}
	teardown := func() {
		w.stop()
		w.sut.Close()
		// let every base run that is (or gets) in progress return
		for i := 0; i < 50; i++ {
			rt.Quiesce()
			select {
			case w.rel <- "canceled":
				continue
			default:
			}
			break
		}
	}
	res := func(m map[string]any) map[string]any {
		teardown()
		rt.Quiesce()
		m["hist"] = w.rec.Events()
		return m
	}
	call := func(id, op string, fn func() d3res) {
		ops[id] = rt.Start(0, func() any {
			w.rec.Log(rt.Event{"ev": "call", "op": op, "id": id})
			r := fn()
			w.logRet(op, id, r)
			return r
		})
	}
	for k, st := range b.Steps {
		switch st.Op {
		case "start":
			call(st.ID, "start", func() d3res {
				if err := w.sut.Start(w.ctx); err != nil {
					return d3res{K: "err"}
				}
				return d3res{K: "nil"}
			})
		case "cancel":
			w.stop()
		case "close":
			call(st.ID, "close", func() d3res { w.sut.Close(); return d3res{K: "done"} })
		case "finish":
			select {
			case w.rel <- st.Arg:
			default:
				return res(inconclusive(n, fmt.Sprintf("schedule diverged: no base run is parked at step %d", k)))
			}
		case "wait":
			call(st.ID, "wait", func() d3res { return w.classify(w.sut.Wait()) })
		case "burst":
			// the base run in progress returns and the context is cancelled with no quiescent point between
			select {
			case w.rel <- st.Arg:
			default:
				return res(inconclusive(n, fmt.Sprintf("schedule diverged: no base run is parked at step %d", k)))
			}
			// a pause of varying length (not part of any expectation) moves the cancellation across the
			// loop's context check and its select
			for i, m := 0, d3spin(n, k); i < m; i++ {
				d3sink.Add(1)
			}
			w.stop()
		case "drain":
			// every base run in progress is let return (ok) until none is
			for i := 0; ; i++ {
				if _, err := rt.Quiesce(); err != nil || i > 20 {
					return res(inconclusive(n, fmt.Sprintf("drain does not settle at step %d", k)))
				}
				select {
				case w.rel <- "ok":
					continue
				default:
				}
				break
			}
		default:
			panic("unknown op " + st.Op)
		}
		if _, err := rt.Quiesce(); err != nil {
			return res(inconclusive(n, fmt.Sprintf("no quiescence after step %d", k)))
		}
		// A restart goes through a runtime timer (minInterval 0 -> timer.Reset(0)), which is not a
		// goroutine the census can see: before a "too little happened" observation is believed the
		// comparison is repeated with pauses (patience only delays the verdict; it never turns a
		// conforming run into a failure).
		var verdict map[string]any
		var trunc bool
		limit := 300
		if d3impatient.Load() >= 3 {
			limit = 10 // this process has already waited in vain three times: the code under test evidently does not restart
		}
		for attempt := 0; attempt < limit; attempt++ {
			verdict, trunc = w.compare(n, k, st, ops, seen)
			if verdict == nil || !verdict["patient"].(bool) {
				break
			}
			if attempt == limit-1 {
				d3impatient.Add(1)
				break
			}
			time.Sleep(time.Duration(1+attempt/30) * time.Millisecond)
			if _, err := rt.Quiesce(); err != nil {
				return res(inconclusive(n, fmt.Sprintf("no quiescence after step %d", k)))
			}
		}
		if verdict != nil {
			delete(verdict, "patient")
			return res(verdict)
		}
		if trunc {
			return res(map[string]any{"n": n, "ok": true, "steps": k + 1, "truncated": true})
		}
	}
	teardown()
	if _, err := rt.Quiesce(); err != nil {
		return res(inconclusive(n, "no quiescence at end"))
	}
	for id, op := range ops {
		if !op.Done() {
			return res(d3fail(n, len(b.Steps), "operation-stuck-after-shutdown", id+" has not returned after cancel, Close and the return of every base run"))
		}
	}
	if w.enter.Load() != w.exit.Load() {
		return res(d3fail(n, len(b.Steps), "base-run-in-progress", "a base run is still in progress after shutdown"))
	}
	w.rec.Log(rt.Event{"ev": "end", "complete": 1})
	return map[string]any{"n": n, "ok": true, "steps": len(b.Steps), "late": w.late, "optkept": w.optkept, "hist": w.rec.Events()}
}

// compare returns (failure or nil, truncated).  failure["patient"] tells the caller whether
// waiting longer could still make the observation conform.
func (w *d3world) compare(n, k int, st d3step, ops map[string]*rt.Op, seen map[string]bool) (map[string]any, bool) {
	where := fmt.Sprintf("step %d (%s %s %s)", k, st.Op, st.ID, st.Arg)
	fail := func(patient bool, what, msg string) (map[string]any, bool) {
		m := d3fail(n, k, what, msg)
		m["patient"] = patient
		return m, false
	}
	trunc := false
	// base runs first (a restart that has not happened yet explains everything else), then the other counts
	prio := map[string]int{"run": 0, "inflight": 1, "shut": 2, "clean": 3, "eh": 4}
	cnts := append([]d3cnt(nil), st.Exp.Cnt...)
	sort.Slice(cnts, func(i, j int) bool { return prio[cnts[i].ID] < prio[cnts[j].ID] })
	for _, c := range cnts {
		var got int
		if c.ID == "run" {
			got = int(w.enter.Load())
		} else if c.ID == "inflight" {
			got = int(w.enter.Load() - w.exit.Load())
		} else {
			got = int(w.cnt[c.ID].Load())
		}
		ok, max := false, 0
		for _, a := range c.Allow {
			if a == got {
				ok = true
			}
			if a > max {
				max = a
			}
		}
		if ok {
			if c.ID == "run" && c.Branch < 0 && len(c.Allow) > 1 && got == max {
				w.late = true
			}
			if c.Branch >= 0 && got != c.Branch {
				trunc = true
			}
			continue
		}
		if c.ID == "inflight" {
			if got > max {
				return fail(false, "base-run-in-progress", fmt.Sprintf("%d base runs in progress at %s; spec allows %v", got, where, c.Allow))
			}
			return fail(true, "base-run-missing", fmt.Sprintf("%d base runs in progress at %s; spec allows %v", got, where, c.Allow))
		}
		name := map[string]string{"run": "base-run", "shut": "base-shutdown", "clean": "base-cleanup", "eh": "handler"}[c.ID]
		if got > max {
			what := name + "-invoked-unexpectedly"
			if c.ID == "run" {
				what = "restart-unexpected"
			}
			return fail(false, what, fmt.Sprintf("%s invoked %d times at %s; spec allows %v", name, got, where, c.Allow))
		}
		what := name + "-not-invoked"
		if c.ID == "run" {
			what = "no-restart"
		}
		return fail(c.ID == "run", what, fmt.Sprintf("%s invoked %d times at quiescence, %s; spec allows %v", name, got, where, c.Allow))
	}
	if trunc {
		return nil, true
	}
	w.mu.Lock()
	for i, c := range w.rctx {
		if w.done[i] && st.Exp.Pastctx == "ended" && c.Err() == nil {
			w.mu.Unlock()
			return fail(false, "run-context-not-released", fmt.Sprintf("the context given to base run %d is still live after that run returned, %s", i+1, where))
		}
		if !w.done[i] && st.Exp.Curctx != "none" {
			live := c.Err() == nil
			if live != (st.Exp.Curctx == "live") {
				w.mu.Unlock()
				return fail(false, "run-context-state", fmt.Sprintf("the context of the base run in progress (%d) has live=%v at %s; spec says %s", i+1, live, where, st.Exp.Curctx))
			}
		}
	}
	w.mu.Unlock()
	for _, e := range st.Exp.Ops {
		op := ops[e.ID]
		if op == nil || seen[e.ID] {
			continue
		}
		blockedOK := false
		for _, a := range e.Allow {
			if a.K == "blocked" {
				blockedOK = true
			}
		}
		if !op.Done() {
			if !blockedOK {
				what := "operation-stuck"
				if st.Op == "wait" || e.ID[0] == 'w' {
					what = "wait-stuck"
				}
				return fail(false, what, fmt.Sprintf("%s has not returned at quiescence, %s; spec allows %+v", e.ID, where, e.Allow))
			}
			continue
		}
		if op.Pan != nil {
			return fail(false, "operation-panicked", fmt.Sprintf("%s panicked: %v", e.ID, op.Pan))
		}
		r, _ := op.Res.(d3res)
		why := "kind"
		for _, a := range e.Allow {
			if why = d3match(a, r); why == "" {
				if a.K == "agg" && len(r.Is) > len(a.Must) {
					w.optkept = true
				}
				break
			}
		}
		if why != "" {
			what := "operation-result"
			if e.ID[0] == 'w' {
				what = "wait-result/" + why
				if len(e.Allow) == 1 && e.Allow[0].K == "blocked" {
					what = "wait-returned-while-base-run-in-progress"
				}
			}
			return fail(false, what, fmt.Sprintf("%s returned %v at %s; spec allows %+v", e.ID, r, where, e.Allow))
		}
		seen[e.ID] = true
	}
	return nil, false
}

// recordX03d produces n free-running histories for spec/srv/DaemonTrace.tla: the base runs return by
// themselves after a random number of yields with a random outcome (a ctx-mode run also when its
// context ends); Wait, Close and cancel come from other goroutines at random moments.  Nothing is
// judged here.
func recordX03d(n int, seed int64) {
	rng := rt.NewRand(seed)
	kinds := []string{"ok", "ok", "ok", "error", "error", "error", "error", "canceled", "deadline", "panic"}
	abs3 := []string{"absent", "ok", "error", "panic"}
	for i := 0; i < n; i++ {
		runtime.GOMAXPROCS(1 + rng.Intn(6))
		cfg := d3cfg{Mode: []string{"gate", "ctx"}[rng.Intn(2)], Pace: "zero", Shut: abs3[rng.Intn(4)], Clean: abs3[rng.Intn(4)],
			Eh: []string{"absent", "ok", "late"}[rng.Intn(3)], Ctxout: []string{"ok", "error", "canceled"}[rng.Intn(3)]}
		if rng.Intn(6) == 0 {
			cfg.Pace = "never"
		}
		w := newD3World(cfg)
		maxRuns := 2 + rng.Intn(7)
		weight := 1 + rng.Intn(40)
		stubborn := rng.Intn(3) == 0 // gate mode: a run in progress ignores the end of its context for a while
		yr := rt.NewRand(rng.Int63())
		w.auto = func(k int, ctx context.Context) string {
			y := yr.Intn(weight * 4)
			out := kinds[yr.Intn(len(kinds))]
			if k >= maxRuns {
				out = "canceled"
			}
			for ; y > 0; y-- {
				runtime.Gosched()
				if ctx.Err() != nil {
					if cfg.Mode == "ctx" {
						return cfg.Ctxout
					}
					if !stubborn {
						break
					}
				}
			}
			return out
		}
		var sw sync.WaitGroup
		launch := func(pre int, fn func()) {
			sw.Add(1)
			go func() {
				defer sw.Done()
				for ; pre > 0; pre-- {
					runtime.Gosched()
				}
				fn()
			}()
		}
		op := func(id, name string, fn func() d3res) func() {
			return func() {
				w.rec.Log(rt.Event{"ev": "call", "op": name, "id": id})
				var r d3res
				func() {
					defer func() {
						if p := recover(); p != nil {
							r = d3res{K: "panic"}
						}
					}()
					r = fn()
				}()
				w.logRet(name, id, r)
			}
		}
		// Start first (a Wait before Start returned is not judged anyway), then everything else at random moments
		op("s1", "start", func() d3res {
			if err := w.sut.Start(w.ctx); err != nil {
				return d3res{K: "err"}
			}
			return d3res{K: "nil"}
		})()
		horizon := weight * 4 * (1 + rng.Intn(maxRuns+2))
		for x := 0; x < 1+rng.Intn(2); x++ {
			id := fmt.Sprintf("w%d", x+1)
			launch(rng.Intn(horizon), op(id, "wait", func() d3res { return w.classify(w.sut.Wait()) }))
		}
		switch rng.Intn(4) {
		case 0:
			launch(rng.Intn(horizon), w.stop)
		case 1:
			launch(rng.Intn(horizon), op("c1", "close", func() d3res { w.sut.Close(); return d3res{K: "done"} }))
		case 2:
			launch(rng.Intn(horizon), w.stop)
			launch(rng.Intn(horizon), op("c1", "close", func() d3res { w.sut.Close(); return d3res{K: "done"} }))
		}
		done := make(chan struct{})
		go func() { sw.Wait(); close(done) }()
		// pace never or an early stop may leave a Wait blocked for good: stop the daemon once the scenario has had its time
		_, qerr := rt.Quiesce()
		select {
		case <-done:
		default:
			w.stop()
			<-done
		}
		_, qerr2 := rt.Quiesce()
		complete := 1
		if qerr != nil || qerr2 != nil {
			complete = 0
		}
		// a last Wait after everything has ended: the daemon's final word
		op("wf", "wait", func() d3res { return w.classify(w.sut.Wait()) })()
		w.rec.Log(rt.Event{"ev": "end", "complete": complete})
		rt.Emit(map[string]any{"hist": w.rec.Events()})
		rt.Flush()
	}
}
