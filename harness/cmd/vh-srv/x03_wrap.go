package main

// X03 (extra check, no listed property): Service.Worker(), srv.Wait and srv.Broker.  replayX03w executes one
// behaviour of spec/srv/WrapAbs.tla with harness-supplied services / operations (counters, release channels,
// scripted outcomes) and compares the observation at quiescence with the allowed set TLC printed.
//
//	vh-srv replay-x03w < behaviours.ndjson
//
// Registered from init(): main.go and the C10 / C11 paths are untouched.

import (
	"context"
	"encoding/json"
	"errors"
	"fmt"
	"os"
	"sort"
	"sync/atomic"

	"github.com/tychoish/fun"
	"github.com/tychoish/fun/ers"
	"github.com/tychoish/fun/pubsub"
	"github.com/tychoish/fun/srv"
	"verif/harness/rt"
)

func init() {
	if len(os.Args) > 1 && os.Args[1] == "replay-x03w" {
		srv.VerifHook = hook
		rt.ReadLines(func(_ int, raw json.RawMessage) {
			var in struct {
				N   int   `json:"n"`
				Beh w3beh `json:"beh"`
			}
			if err := json.Unmarshal(raw, &in); err != nil {
				panic(err)
			}
			rt.Emit(map[string]any{"begin": in.N})
			rt.Flush()
			rt.Emit(replayX03w(in.N, in.Beh))
			rt.Flush()
		})
		rt.Flush()
		os.Exit(0)
	}
}

type w3unitCfg struct {
	Name string `json:"name"`
	Kind string `json:"kind"` // ok | error | panic
	Mode string `json:"mode"` // gate | ctx
}

type w3cfg struct {
	Comp  string      `json:"comp"` // worker | wait | broker
	Pre   string      `json:"pre"`  // worker: new | running | finished
	Units []w3unitCfg `json:"units"`
}

type w3alt struct {
	K      string   `json:"k"` // blocked | nil | err | done | agg | ctxerr | notstarted
	Must   []string `json:"must"`
	Forbid []string `json:"forbid"`
	Pan    string   `json:"pan"`
}

type w3opExp struct {
	ID    string  `json:"id"`
	Allow []w3alt `json:"allow"`
}

type w3exp struct {
	Ops      []w3opExp `json:"ops"`
	Cnt      []cntExp  `json:"cnt"`
	Inflight int       `json:"inflight"`
}

type w3step struct {
	Op  string `json:"op"`
	ID  string `json:"id"`
	Arg string `json:"arg"`
	Exp w3exp  `json:"exp"`
}

type w3beh struct {
	Cfg   w3cfg    `json:"cfg"`
	Steps []w3step `json:"steps"`
}

type w3unit struct {
	cfg   w3unitCfg
	enter atomic.Int64
	exit  atomic.Int64
	rel   chan struct{}
	errV  error
	panV  error
}

type w3world struct {
	cfg     w3cfg
	g       *rt.Gates
	units   map[string]*w3unit
	order   []string
	ctxs    map[string]context.Context
	cancels map[string]context.CancelFunc
	svc     *srv.Service // worker: the service; wait / broker: the service under test
	queue   *pubsub.Queue[fun.Operation]
	broker  *pubsub.Broker[int]
	bcancel context.CancelFunc
}

func (w *w3world) body(u *w3unit, ctx context.Context) error {
	u.enter.Add(1)
	if u.cfg.Mode == "ctx" {
		select {
		case <-u.rel:
		case <-ctx.Done():
		}
	} else {
		<-u.rel
	}
	defer u.exit.Add(1)
	switch u.cfg.Kind {
	case "error":
		return u.errV
	case "panic":
		panic(u.panV)
	}
	return nil
}

func newW3World(cfg w3cfg) *w3world {
	w := &w3world{cfg: cfg, g: rt.NewGates(), units: map[string]*w3unit{}, ctxs: map[string]context.Context{}, cancels: map[string]context.CancelFunc{}}
	for _, uc := range cfg.Units {
		w.units[uc.Name] = &w3unit{cfg: uc, rel: make(chan struct{}), errV: errors.New("verif: " + uc.Name + " failed"), panV: errors.New("verif: " + uc.Name + " panicked")}
		w.order = append(w.order, uc.Name)
	}
	sort.Strings(w.order)
	for _, c := range []string{"c1", "c2", "x"} {
		w.ctxs[c], w.cancels[c] = context.WithCancel(context.Background())
	}
	return w
}

type w3res struct {
	K   string
	Is  []string
	Pan bool
}

func (r w3res) String() string {
	if r.K != "agg" {
		return r.K
	}
	return fmt.Sprintf("agg{is=%v pan=%v}", r.Is, r.Pan)
}

func (w *w3world) classify(err error) w3res {
	out := []string{}
	for _, n := range w.order {
		u := w.units[n]
		if errors.Is(err, u.errV) {
			out = append(out, "e:"+n)
		}
		if errors.Is(err, u.panV) {
			out = append(out, "p:"+n)
		}
	}
	return w3res{K: "agg", Is: out, Pan: errors.Is(err, ers.ErrRecoveredPanic)}
}

// result of Service.Worker()(ctx)
func (w *w3world) classifyWorker(err error) w3res {
	r := w.classify(err)
	switch {
	case errors.Is(err, srv.ErrServiceNotStarted):
		return w3res{K: "notstarted"}
	case len(r.Is) == 0 && (err == context.Canceled || err == context.DeadlineExceeded):
		return w3res{K: "ctxerr"}
	}
	return r
}

func w3match(a w3alt, r w3res) string {
	if a.K != r.K {
		return "kind"
	}
	if a.K != "agg" {
		return ""
	}
	have := map[string]bool{}
	for _, s := range r.Is {
		have[s] = true
	}
	for _, m := range a.Must {
		if !have[m] {
			return "failure-missing"
		}
	}
	for _, m := range a.Forbid {
		if have[m] {
			return "failure-not-expected"
		}
	}
	if a.Pan == "t" && !r.Pan || a.Pan == "f" && r.Pan {
		return "panic-flag"
	}
	return ""
}

func replayX03w(n int, b w3beh) map[string]any {
	w := newW3World(b.Cfg)
	setHooks(w.g)
	defer setHooks(nil)
	comp := b.Cfg.Comp
	key := func(what string) string { return "wrap/" + comp + "/" + what }
	ops := map[string]*rt.Op{}
	seen := map[string]bool{}
	teardown := func() {
		untarget(ptLaunched)
		w.g.Disarm("w3-launched")
		for _, c := range w.cancels {
			c()
		}
		if w.svc != nil {
			w.svc.Close()
		}
		if w.queue != nil {
			_ = w.queue.Close()
		}
		if w.bcancel != nil {
			w.bcancel()
		}
		for i := 0; i < 20; i++ {
			rt.Quiesce()
			again := false
			for _, name := range w.order {
				select {
				case w.units[name].rel <- struct{}{}:
					again = true
				default:
				}
			}
			if !again {
				break
			}
		}
	}
	res := func(m map[string]any) map[string]any {
		teardown()
		rt.Quiesce()
		return m
	}
	// --- the component under test
	switch comp {
	case "worker":
		u := w.units["a"]
		w.svc = &srv.Service{Name: "sut", Run: func(ctx context.Context) error { return w.body(u, ctx) }}
		if b.Cfg.Pre != "new" {
			if err := w.svc.Start(w.ctxs["x"]); err != nil {
				return res(inconclusive(n, "pre-start failed: "+err.Error()))
			}
			if _, err := rt.Quiesce(); err != nil {
				return res(inconclusive(n, "no quiescence during setup"))
			}
			if b.Cfg.Pre == "finished" {
				u.rel <- struct{}{}
				_ = w.svc.Wait()
			}
		}
	case "wait":
		w.queue = pubsub.NewUnlimitedQueue[fun.Operation]()
		w.svc = srv.Wait(w.queue.Distributor().Iterator())
	case "broker":
		var bctx context.Context
		bctx, w.bcancel = context.WithCancel(context.Background())
		w.broker = pubsub.NewBroker[int](bctx, pubsub.BrokerOptions{})
		w.svc = srv.Broker(w.broker)
	default:
		panic("unknown component " + comp)
	}
	if _, err := rt.Quiesce(); err != nil {
		return res(inconclusive(n, "no quiescence during setup"))
	}
	call := func(id string, fn func() w3res) { ops[id] = rt.Start(0, func() any { return fn() }) }
	for k, st := range b.Steps {
		switch st.Op {
		case "work":
			ctx := w.ctxs[st.Arg]
			call(st.ID, func() w3res { return w.classifyWorker(w.svc.Worker()(ctx)) })
		case "workhold":
			// this Worker's Start is parked inside the service's sync.Once (yield point Start.launched)
			ctx := w.ctxs[st.Arg]
			target(ptLaunched, "w3-launched", false)
			call(st.ID, func() w3res { return w.classifyWorker(w.svc.Worker()(ctx)) })
			if _, err := rt.Quiesce(); err != nil || w.g.Waiting("w3-launched") != 1 {
				return res(inconclusive(n, "yield point "+ptLaunched+" not reached"))
			}
		case "relhold":
			if w.g.Waiting("w3-launched") != 1 {
				return res(inconclusive(n, "yield point "+ptLaunched+" not held"))
			}
			w.g.Disarm("w3-launched")
		case "start":
			call(st.ID, func() w3res {
				if err := w.svc.Start(w.ctxs["c1"]); err != nil {
					return w3res{K: "err"}
				}
				return w3res{K: "nil"}
			})
		case "add":
			u := w.units[st.Arg]
			call(st.ID, func() w3res {
				if err := w.queue.Add(func(ctx context.Context) { _ = w.body(u, ctx) }); err != nil {
					return w3res{K: "err"}
				}
				return w3res{K: "nil"}
			})
		case "closeq":
			_ = w.queue.Close()
		case "stop":
			w.broker.Stop()
		case "probe":
			call(st.ID, func() w3res { w.broker.Wait(context.Background()); return w3res{K: "done"} })
		case "close":
			call(st.ID, func() w3res { w.svc.Close(); return w3res{K: "done"} })
		case "wait":
			call(st.ID, func() w3res { return w.classify(w.svc.Wait()) })
		case "cancel":
			w.cancels[st.Arg]()
		case "finish":
			select {
			case w.units[st.Arg].rel <- struct{}{}:
			default:
				return res(inconclusive(n, fmt.Sprintf("schedule diverged: %s is not in progress at step %d", st.Arg, k)))
			}
		default:
			panic("unknown op " + st.Op)
		}
		if _, err := rt.Quiesce(); err != nil {
			return res(inconclusive(n, fmt.Sprintf("no quiescence after step %d", k)))
		}
		where := fmt.Sprintf("step %d (%s %s %s)", k, st.Op, st.ID, st.Arg)
		for _, c := range st.Exp.Cnt {
			got := int(w.units[c.ID].enter.Load())
			ok := false
			for _, a := range c.Allow {
				if a == got {
					ok = true
				}
			}
			if !ok {
				what := "unit-not-invoked"
				if got > c.Allow[len(c.Allow)-1] {
					what = "unit-invoked-unexpectedly"
				}
				if got > 1 {
					what = "unit-invoked-twice"
				}
				return res(failure(n, k, key(what), fmt.Sprintf("%s invoked %d times at %s; spec allows %v", c.ID, got, where, c.Allow)))
			}
		}
		infl := 0
		for _, name := range w.order {
			infl += int(w.units[name].enter.Load() - w.units[name].exit.Load())
		}
		if infl != st.Exp.Inflight {
			return res(failure(n, k, key("units-in-progress"), fmt.Sprintf("%d units in progress at %s; spec says %d", infl, where, st.Exp.Inflight)))
		}
		for _, e := range st.Exp.Ops {
			op := ops[e.ID]
			if op == nil || seen[e.ID] {
				continue
			}
			blockedOK := false
			for _, a := range e.Allow {
				if a.K == "blocked" {
					blockedOK = true
				}
			}
			if !op.Done() {
				if !blockedOK {
					return res(failure(n, k, key("operation-stuck"), fmt.Sprintf("%s has not returned at quiescence, %s; spec allows %+v", e.ID, where, e.Allow)))
				}
				continue
			}
			if op.Pan != nil {
				return res(failure(n, k, key("operation-panicked"), fmt.Sprintf("%s panicked: %v", e.ID, op.Pan)))
			}
			r, _ := op.Res.(w3res)
			why := "kind"
			for _, a := range e.Allow {
				if why = w3match(a, r); why == "" {
					break
				}
			}
			if why != "" {
				what := "result/" + why
				if len(e.Allow) == 1 && e.Allow[0].K == "blocked" {
					what = "returned-early"
				}
				return res(failure(n, k, key(what), fmt.Sprintf("%s returned %v at %s; spec allows %+v", e.ID, r, where, e.Allow)))
			}
			seen[e.ID] = true
		}
	}
	teardown()
	if _, err := rt.Quiesce(); err != nil {
		return res(inconclusive(n, "no quiescence at end"))
	}
	for id, op := range ops {
		if !op.Done() {
			return res(failure(n, len(b.Steps), key("operation-stuck-after-shutdown"), id+" has not returned after every context ended, Close, and the release of every unit"))
		}
	}
	early := false
	for id := range seen {
		if r, ok := ops[id].Res.(w3res); ok && r.K == "notstarted" {
			early = true
		}
	}
	return map[string]any{"n": n, "ok": true, "steps": len(b.Steps), "early": early}
}
