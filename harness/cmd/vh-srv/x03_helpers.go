package main

// X03 (extra check), part "helpers": the context helpers of package srv (context.go).
// `vh-srv replay-x03h` executes behaviours of spec/srv/HelpersAbs.tla: a small world of context
// slots ("c0" = cancellable root, derived slots filled by the helpers in order).  After every
// driver step the process is brought to quiescence and the complete observation table (result of
// the step, ctx.Err() of every slot, Has*/Get* of every slot, Running() of every orchestrator,
// invocation counts of the cleanup jobs, pending Waits) is compared with the expectation TLC
// printed with the step.  Nothing is computed here: the allowed outcomes (`alts`) and the probe
// table come from the behaviour; where documentation and code differ the behaviour lists both
// outcomes and names the one the model continues with (`branch`): when the real outcome is
// allowed but is not `branch`, replaying stops with ok + "truncated":true.
//
// The sub-command is registered from init so that main.go stays untouched.

import (
	"context"
	"encoding/json"
	"errors"
	"fmt"
	"os"
	"runtime"
	"sort"
	"strings"
	"sync/atomic"

	"github.com/tychoish/fun"
	"github.com/tychoish/fun/ers"
	"github.com/tychoish/fun/srv"
	"verif/harness/rt"
)

func init() {
	if len(os.Args) > 1 && os.Args[1] == "replay-x03h" {
		srv.VerifHook = hook
		rt.ReadLines(func(_ int, raw json.RawMessage) {
			var in struct {
				N   int   `json:"n"`
				Beh h3Beh `json:"beh"`
			}
			if err := json.Unmarshal(raw, &in); err != nil {
				panic(err)
			}
			rt.Emit(map[string]any{"begin": in.N})
			rt.Flush()
			rt.Emit(h3Replay(in.N, in.Beh))
			rt.Flush()
		})
		rt.Flush()
		os.Exit(0)
	}
}

type h3Job struct {
	Name string `json:"name"`
	Kind string `json:"kind"` // ok | error | panic (AddCleanup jobs) | errval (AddCleanupError)
}

type h3Cfg struct {
	Jobs []h3Job           `json:"jobs"`
	Div  map[string]string `json:"div"`
}

// h3Alt is one allowed outcome of a driver step: its result and the set of cancelled slots
type h3Alt struct {
	Res  string   `json:"res"` // ok | panic (panic = a panic rooted in fun.ErrInvariantViolation)
	Canc []string `json:"canc"`
}

type h3Has struct {
	C    string `json:"c"`
	Sig  string `json:"sig"`
	Base string `json:"base"`
	Orch string `json:"orch"`
	Cl   string `json:"cl"`
}

type h3CR struct {
	C string `json:"c"`
	R string `json:"r"`
}

type h3OR struct {
	O string `json:"o"`
	R string `json:"r"`
}

type h3Cnt struct {
	ID    string `json:"id"`
	Allow []int  `json:"allow"`
}

type h3WaitAlt struct {
	K      string   `json:"k"` // blocked | agg
	Must   []string `json:"must"`
	Forbid []string `json:"forbid"`
	Nil    string   `json:"nil"` // t | f | any
	Pan    string   `json:"pan"` // t | f | any
}

type h3OpExp struct {
	ID    string      `json:"id"`
	Allow []h3WaitAlt `json:"allow"`
}

type h3Exp struct {
	Alts    []h3Alt   `json:"alts"`
	Branch  h3Alt     `json:"branch"`
	Has     []h3Has   `json:"has"`
	Getbase []h3CR    `json:"getbase"`
	Getorch []h3CR    `json:"getorch"`
	Running []h3OR    `json:"running"`
	Cnt     []h3Cnt   `json:"cnt"`
	Ops     []h3OpExp `json:"ops"`
}

type h3Step struct {
	Op   string `json:"op"`
	ID   string `json:"id"`
	Arg  string `json:"arg"`
	Arg2 string `json:"arg2"`
	Exp  h3Exp  `json:"exp"`
}

type h3Beh struct {
	Cfg   h3Cfg    `json:"cfg"`
	Steps []h3Step `json:"steps"`
}

type h3JobRt struct {
	cfg   h3Job
	enter atomic.Int64
	errV  error
	panV  error
}

type h3WaitRes struct {
	Is  []string
	Nil bool
	Pan bool
}

func (r h3WaitRes) String() string {
	return fmt.Sprintf("agg{is=%v nil=%v pan=%v}", r.Is, r.Nil, r.Pan)
}

type h3World struct {
	slots  map[string]context.Context
	cancel context.CancelFunc
	orchs  map[string]*srv.Orchestrator
	osvc   map[string]*srv.Service
	jobs   map[string]*h3JobRt
	jorder []string
	waits  map[string]*rt.Op
	seen   map[string]bool
}

var h3SlotOrder = []string{"c0", "c1", "c2", "c3", "c4"}

var h3OpName = map[string]string{
	"setsig": "SetShutdownSignal", "sigcall": "GetShutdownSignal", "setbase": "SetBaseContext",
	"withorch": "WithOrchestrator", "setorch": "SetOrchestrator", "withcleanup": "WithCleanup",
	"addcleanup": "AddCleanup", "adderr": "AddCleanupError", "cancel": "context-cancel", "owait": "Service.Wait",
}

func h3Key(op, pred string) string { return "srvhelpers/" + op + "/" + pred }

func h3NewWorld(cfg h3Cfg) *h3World {
	w := &h3World{slots: map[string]context.Context{}, orchs: map[string]*srv.Orchestrator{}, osvc: map[string]*srv.Service{},
		jobs: map[string]*h3JobRt{}, waits: map[string]*rt.Op{}, seen: map[string]bool{}}
	w.slots["c0"], w.cancel = context.WithCancel(context.Background())
	for _, jc := range cfg.Jobs {
		w.jobs[jc.Name] = &h3JobRt{cfg: jc, errV: errors.New("verif: " + jc.Name + " failed"), panV: errors.New("verif: " + jc.Name + " panicked")}
		w.jorder = append(w.jorder, jc.Name)
	}
	sort.Strings(w.jorder)
	return w
}

func (w *h3World) job(j *h3JobRt) fun.Worker {
	return func(context.Context) error {
		j.enter.Add(1)
		switch j.cfg.Kind {
		case "ok":
			return nil
		case "panic":
			panic(j.panV)
		}
		return j.errV
	}
}

// h3Panic classifies a recovered panic value: "panic" when it is an error rooted in
// fun.ErrInvariantViolation (what the docs of the helpers promise), "panic-other" otherwise
func h3Panic(p any) string {
	if err, ok := p.(error); ok && errors.Is(err, fun.ErrInvariantViolation) {
		return "panic"
	}
	return "panic-other"
}

// h3Call runs fn, turning a panic into its classification
func h3Call(fn func()) (res string, pv any) {
	defer func() {
		if p := recover(); p != nil {
			res, pv = h3Panic(p), p
		}
	}()
	fn()
	return "ok", nil
}

func (w *h3World) slotOf(ctx context.Context) string {
	for _, n := range h3SlotOrder {
		if c, ok := w.slots[n]; ok && c == ctx {
			return n
		}
	}
	return "unknown"
}

func (w *h3World) orchOf(or *srv.Orchestrator) string {
	names := []string{}
	for n := range w.orchs {
		names = append(names, n)
	}
	sort.Strings(names)
	for _, n := range names {
		if w.orchs[n] == or {
			return n
		}
	}
	return "unknown"
}

func (w *h3World) cancelled() []string {
	out := []string{}
	for _, n := range h3SlotOrder {
		if c, ok := w.slots[n]; ok && c.Err() != nil {
			out = append(out, n)
		}
	}
	return out
}

func h3SameSet(a, b []string) bool {
	if len(a) != len(b) {
		return false
	}
	x := append([]string{}, a...)
	y := append([]string{}, b...)
	sort.Strings(x)
	sort.Strings(y)
	for i := range x {
		if x[i] != y[i] {
			return false
		}
	}
	return true
}

func h3B(b bool) string {
	if b {
		return "true"
	}
	return "false"
}

func (w *h3World) classifyWait(err error) h3WaitRes {
	out := []string{}
	for _, n := range w.jorder {
		j := w.jobs[n]
		if errors.Is(err, j.errV) {
			out = append(out, "e:"+n)
		}
		if errors.Is(err, j.panV) {
			out = append(out, "p:"+n)
		}
	}
	return h3WaitRes{Is: out, Nil: err == nil, Pan: errors.Is(err, ers.ErrRecoveredPanic)}
}

func h3WaitMatches(a h3WaitAlt, r h3WaitRes) bool {
	if a.K != "agg" {
		return false
	}
	have := map[string]bool{}
	for _, s := range r.Is {
		have[s] = true
	}
	for _, m := range a.Must {
		if !have[m] {
			return false
		}
	}
	for _, f := range a.Forbid {
		if have[f] {
			return false
		}
	}
	if a.Nil == "t" && !r.Nil || a.Nil == "f" && r.Nil {
		return false
	}
	if a.Pan == "t" && !r.Pan || a.Pan == "f" && r.Pan {
		return false
	}
	return true
}

// execute performs the driver step itself; returns the started operation (all helpers are
// synchronous: the operation must have returned by quiescence, except owait)
func (w *h3World) execute(st h3Step, created *context.Context) (*rt.Op, string) {
	src, haveSrc := w.slots[st.Arg]
	needSrc := st.Op != "owait"
	if needSrc && !haveSrc {
		return nil, "schedule refers to slot " + st.Arg + " which does not exist"
	}
	derive := func(fn func(context.Context) context.Context) *rt.Op {
		return rt.Start(0, func() any {
			res, _ := h3Call(func() { *created = fn(src) })
			return res
		})
	}
	plain := func(fn func()) *rt.Op {
		return rt.Start(0, func() any {
			res, _ := h3Call(fn)
			return res
		})
	}
	switch st.Op {
	case "setsig":
		return derive(srv.SetShutdownSignal), ""
	case "setbase":
		return derive(srv.SetBaseContext), ""
	case "withorch":
		return derive(srv.WithOrchestrator), ""
	case "withcleanup":
		return derive(srv.WithCleanup), ""
	case "setorch":
		or := w.orchs[st.Arg2]
		if or == nil {
			return nil, "schedule refers to orchestrator " + st.Arg2 + " which does not exist"
		}
		return derive(func(c context.Context) context.Context { return srv.SetOrchestrator(c, or) }), ""
	case "sigcall":
		return plain(func() { srv.GetShutdownSignal(src)() }), ""
	case "addcleanup":
		j := w.jobs[st.ID]
		return plain(func() { srv.AddCleanup(src, w.job(j)) }), ""
	case "adderr":
		j := w.jobs[st.ID]
		return plain(func() { srv.AddCleanupError(src, j.errV) }), ""
	case "cancel":
		return plain(w.cancel), ""
	case "owait":
		svc := w.osvc[st.Arg2]
		if svc == nil {
			return nil, "schedule refers to orchestrator " + st.Arg2 + " which does not exist"
		}
		w.waits[st.ID] = rt.Start(0, func() any { return w.classifyWait(svc.Wait()) })
		return nil, ""
	}
	panic("unknown op " + st.Op)
}

// compare judges the observations at one quiescent point; nil = conforming.  truncated = the
// step's outcome is allowed but is not the one the model continues with.
func (w *h3World) compare(n, k int, st h3Step, res string) (verdict map[string]any, truncated bool) {
	where := fmt.Sprintf("step %d (%s %s %s %s)", k, st.Op, st.ID, st.Arg, st.Arg2)
	opn := h3OpName[st.Op]
	canc := w.cancelled()
	// --- the step's own outcome
	resOK, altOK := false, false
	for _, a := range st.Exp.Alts {
		if a.Res == res {
			resOK = true
			if h3SameSet(a.Canc, canc) {
				altOK = true
			}
		}
	}
	if !resOK {
		pred := "outcome"
		switch {
		case res == "ok":
			pred = "panic-expected"
		case res == "panic":
			pred = "unexpected-panic"
		case res == "panic-other":
			pred = "panic-is-invariant-violation"
		}
		return failure(n, k, h3Key(opn, pred), fmt.Sprintf("%s: outcome %q; spec allows %+v", where, res, st.Exp.Alts)), false
	}
	if !altOK {
		return failure(n, k, h3Key(opn, "cancellation-scope"), fmt.Sprintf("%s: cancelled slots %v; spec allows %+v", where, canc, st.Exp.Alts)), false
	}
	if res != st.Exp.Branch.Res || !h3SameSet(st.Exp.Branch.Canc, canc) {
		return nil, true
	}
	// --- probes of every slot in use
	for _, h := range st.Exp.Has {
		ctx, ok := w.slots[h.C]
		if !ok {
			return failure(n, k, h3Key(opn, "context-returned"), fmt.Sprintf("%s: slot %s was not created", where, h.C)), false
		}
		for _, q := range []struct {
			name string
			got  bool
			want string
		}{{"HasShutdownSignal", srv.HasShutdownSignal(ctx), h.Sig}, {"HasBaseContext", srv.HasBaseContext(ctx), h.Base},
			{"HasOrchestrator", srv.HasOrchestrator(ctx), h.Orch}, {"HasCleanup", srv.HasCleanup(ctx), h.Cl}} {
			if h3B(q.got) != q.want {
				return failure(n, k, h3Key(q.name, "reports-attachment"), fmt.Sprintf("%s(%s) = %v at %s; spec says %s", q.name, h.C, q.got, where, q.want)), false
			}
		}
	}
	for _, g := range st.Exp.Getbase {
		var got context.Context
		r, _ := h3Call(func() { got = srv.GetBaseContext(w.slots[g.C]) })
		if r == "ok" {
			r = w.slotOf(got)
		}
		if r != g.R {
			pred := "returns-context-given-to-nearest-SetBaseContext"
			if g.R == "panic" {
				pred = "panics-when-none-attached"
			}
			return failure(n, k, h3Key("GetBaseContext", pred), fmt.Sprintf("GetBaseContext(%s) = %s at %s; spec says %s", g.C, r, where, g.R)), false
		}
	}
	for _, g := range st.Exp.Getorch {
		var got *srv.Orchestrator
		r, _ := h3Call(func() { got = srv.GetOrchestrator(w.slots[g.C]) })
		if r == "ok" {
			r = w.orchOf(got)
		} else {
			r = "panic" // the docs do not promise the kind of panic
		}
		if r != g.R {
			pred := "returns-nearest-attached-orchestrator"
			if g.R == "panic" {
				pred = "panics-when-none-attached"
			}
			return failure(n, k, h3Key("GetOrchestrator", pred), fmt.Sprintf("GetOrchestrator(%s) = %s at %s; spec says %s", g.C, r, where, g.R)), false
		}
	}
	for _, o := range st.Exp.Running {
		svc := w.osvc[o.O]
		if svc == nil {
			return failure(n, k, h3Key(opn, "orchestrator-attached"), fmt.Sprintf("%s: orchestrator %s cannot be resolved from the returned context", where, o.O)), false
		}
		if got := h3B(svc.Running()); got != o.R {
			pred := "orchestrator-service-running-until-its-context-ends"
			if o.R == "false" {
				pred = "orchestrator-service-ends-with-its-context"
			}
			return failure(n, k, h3Key(opn, pred), fmt.Sprintf("%s: %s.Service().Running() = %s; spec says %s", where, o.O, got, o.R)), false
		}
	}
	for _, c := range st.Exp.Cnt {
		j := w.jobs[c.ID]
		got := int(j.enter.Load())
		ok, max := false, 0
		for _, a := range c.Allow {
			if a == got {
				ok = true
			}
			if a > max {
				max = a
			}
		}
		switch {
		case ok:
		case got > 1:
			return failure(n, k, h3Key("AddCleanup", "job-ran-twice"), fmt.Sprintf("%s ran %d times at %s", c.ID, got, where)), false
		case got > max:
			return failure(n, k, h3Key("AddCleanup", "job-ran-before-shutdown"), fmt.Sprintf("%s has run at %s; spec allows %v", c.ID, where, c.Allow)), false
		default:
			return failure(n, k, h3Key("AddCleanup", "accepted-job-not-run-at-shutdown"), fmt.Sprintf("%s ran %d times at %s; spec allows %v", c.ID, got, where, c.Allow)), false
		}
	}
	for _, e := range st.Exp.Ops {
		op := w.waits[e.ID]
		if op == nil || w.seen[e.ID] {
			continue
		}
		blockedOK := false
		for _, a := range e.Allow {
			if a.K == "blocked" {
				blockedOK = true
			}
		}
		if !op.Done() {
			if !blockedOK {
				return failure(n, k, h3Key("Service.Wait", "returns-after-context-cancelled"), fmt.Sprintf("%s has not returned at quiescence, %s; spec allows %+v", e.ID, where, e.Allow)), false
			}
			continue
		}
		if op.Pan != nil {
			return failure(n, k, h3Key("Service.Wait", "panicked"), fmt.Sprintf("%s panicked: %v", e.ID, op.Pan)), false
		}
		r, _ := op.Res.(h3WaitRes)
		okAlt := false
		for _, a := range e.Allow {
			if h3WaitMatches(a, r) {
				okAlt = true
			}
		}
		if !okAlt {
			pred := "reports-cleanup-errors"
			if len(e.Allow) == 1 && e.Allow[0].K == "blocked" {
				pred = "blocks-while-context-live"
			}
			return failure(n, k, h3Key("Service.Wait", pred), fmt.Sprintf("%s returned %v at %s; spec allows %+v", e.ID, r, where, e.Allow)), false
		}
		w.seen[e.ID] = true
	}
	return nil, false
}

func h3Replay(n int, b h3Beh) map[string]any {
	w := h3NewWorld(b.Cfg)
	setHooks(nil)
	// tear-down: end the root and - should an orchestrator not live under it - close every
	// orchestrator service, so that nothing of this behaviour survives into the next one
	teardown := func() {
		w.cancel()
		for _, svc := range w.osvc {
			svc.Close()
		}
	}
	finish := func(m map[string]any) map[string]any {
		teardown()
		rt.Quiesce()
		return m
	}
	for k, st := range b.Steps {
		if _, known := h3OpName[st.Op]; !known {
			return finish(inconclusive(n, "unknown op "+st.Op))
		}
		var created context.Context
		op, why := w.execute(st, &created)
		if why != "" {
			return finish(inconclusive(n, why))
		}
		if _, err := rt.Quiesce(); err != nil {
			return finish(inconclusive(n, fmt.Sprintf("no quiescence after step %d", k)))
		}
		res := "ok"
		if op != nil {
			if !op.Done() {
				// one more look before calling a synchronous helper stuck
				for y := 0; y < 200; y++ {
					runtime.Gosched()
				}
				if _, err := rt.Quiesce(); err != nil {
					return finish(inconclusive(n, fmt.Sprintf("no quiescence after step %d", k)))
				}
			}
			if !op.Done() {
				return finish(failure(n, k, h3Key(h3OpName[st.Op], "returns"), fmt.Sprintf("step %d (%s %s %s): the call has not returned at quiescence", k, st.Op, st.ID, st.Arg)))
			}
			res, _ = op.Res.(string)
			if op.Pan != nil { // cannot happen: h3Call recovers
				res = "panic-other"
			}
		}
		if res == "ok" && created != nil && strings.HasPrefix(st.ID, "c") {
			w.slots[st.ID] = created
			if (st.Op == "withorch" || st.Op == "withcleanup") && w.orchs[st.Arg2] == nil {
				// a new orchestrator: resolve it from the returned context (a panic or an
				// orchestrator that is already known leaves it unresolved; the probes report that)
				var or *srv.Orchestrator
				if r, _ := h3Call(func() { or = srv.GetOrchestrator(created) }); r == "ok" && or != nil && w.orchOf(or) == "unknown" {
					w.orchs[st.Arg2] = or
					w.osvc[st.Arg2] = or.Service()
				}
			}
		}
		var verdict map[string]any
		truncated := false
		for attempt := 0; attempt < 3; attempt++ {
			verdict, truncated = w.compare(n, k, st, res)
			if verdict == nil {
				break
			}
			for y := 0; y < 200; y++ {
				runtime.Gosched()
			}
			if _, err := rt.Quiesce(); err != nil {
				return finish(inconclusive(n, fmt.Sprintf("no quiescence after step %d", k)))
			}
		}
		if verdict != nil {
			return finish(verdict)
		}
		if truncated {
			return finish(map[string]any{"n": n, "ok": true, "truncated": true, "steps": k + 1,
				"note": fmt.Sprintf("step %d (%s): outcome %s %v is allowed but is not the model's branch", k, st.Op, res, w.cancelled())})
		}
	}
	teardown()
	if _, err := rt.Quiesce(); err != nil {
		return inconclusive(n, "no quiescence at end")
	}
	for _, name := range w.jorder {
		if c := w.jobs[name].enter.Load(); c > 1 {
			return failure(n, len(b.Steps), h3Key("AddCleanup", "job-ran-twice"), fmt.Sprintf("%s ran %d times", name, c))
		}
	}
	return map[string]any{"n": n, "ok": true, "steps": len(b.Steps)}
}
