package main

// C10: srv.Service lifecycle.  replaySvc executes one behaviour of spec/srv/ServiceAbs.tla;
// recordSvc produces un-stepped concurrent histories.  Both emit the event history that
// spec/srv/ServiceTrace.tla validates.

import (
	"context"
	"errors"
	"fmt"
	"runtime"
	"sort"
	"strings"
	"sync"
	"sync/atomic"

	"github.com/tychoish/fun/ers"
	"github.com/tychoish/fun/srv"
	"verif/harness/rt"
)

const (
	ptChecked  = "srv.Service.Start.checked"
	ptLaunched = "srv.Service.Start.launched"
	ptFinished = "srv.Service.run.finished"
)

type svcCfg struct {
	Run     string `json:"run"`
	Shut    string `json:"shut"`
	Clean   string `json:"clean"`
	Eh      string `json:"eh"`
	Mode    string `json:"mode"` // "gate": Run returns when the driver says so; "ctx": when its context ends
	Holdfin bool   `json:"holdfin"`
}

// alt is one allowed observation of an operation at quiescence.
type alt struct {
	K    string   `json:"k"`    // blocked | any | nil | already | returned | done | notstarted | agg
	Must []string `json:"must"` // agg: errors.Is must hold for these sentinels
	Pan  string   `json:"pan"`  // agg: "t" errors.Is(ErrRecoveredPanic) required, "any"
	Nil  string   `json:"nil"`  // agg: "t" must be nil, "f" must be non-nil, "any"
}

type opExp struct {
	ID    string `json:"id"`
	Allow []alt  `json:"allow"`
}

type sexp struct {
	Ops        []opExp        `json:"ops"`
	Cnt        map[string]int `json:"cnt"`
	Notrunning bool           `json:"notrunning"`
}

type sstep struct {
	Op  string `json:"op"`
	ID  string `json:"id"`
	Arg string `json:"arg"`
	Exp sexp   `json:"exp"`
}

type sbeh struct {
	Cfg   svcCfg  `json:"cfg"`
	Steps []sstep `json:"steps"`
}

// result of a public operation as the harness sees it
type opRes struct {
	K   string
	Is  []string
	Pan bool
	Nil bool
}

func (r opRes) String() string {
	if r.K != "agg" {
		return r.K
	}
	return fmt.Sprintf("agg{is=%v pan=%v nil=%v}", r.Is, r.Pan, r.Nil)
}

// sentinels injected by the harness-supplied phase functions
var sentinels = map[string]error{
	"eRun": errors.New("verif: Run failed"), "eShut": errors.New("verif: Shutdown failed"),
	"eClean": errors.New("verif: Cleanup failed"),
	"pRun":   errors.New("verif: Run panicked"), "pShut": errors.New("verif: Shutdown panicked"),
	"pClean": errors.New("verif: Cleanup panicked"), "pEh": errors.New("verif: handler panicked"),
}

func isList(err error) []string {
	out := []string{}
	for k, s := range sentinels {
		if errors.Is(err, s) {
			out = append(out, k)
		}
	}
	sort.Strings(out)
	return out
}

func classifyStart(err error) opRes {
	switch {
	case err == nil:
		return opRes{K: "nil"}
	case errors.Is(err, srv.ErrServiceAlreadyStarted):
		return opRes{K: "already"}
	case errors.Is(err, srv.ErrServiceReturned):
		return opRes{K: "returned"}
	}
	return opRes{K: "other"}
}

func classifyWait(err error) opRes {
	if errors.Is(err, srv.ErrServiceNotStarted) {
		return opRes{K: "notstarted", Is: []string{}}
	}
	return opRes{K: "agg", Is: isList(err), Pan: errors.Is(err, ers.ErrRecoveredPanic), Nil: err == nil}
}

// svcWorld is one Service under test with harness-supplied phases.
type svcWorld struct {
	cfg    svcCfg
	svc    *srv.Service
	g      *rt.Gates
	rec    *rt.Recorder
	parent context.Context
	cancel context.CancelFunc
	enter  map[string]*atomic.Int64
	yield  func() // record mode: perturbation inside the phases
}

func (w *svcWorld) outcome(fn, kind string) error {
	w.rec.Log(rt.Event{"ev": "cb_exit", "fn": fn, "out": kind})
	switch kind {
	case "error":
		return sentinels["e"+strings.ToUpper(fn[:1])+fn[1:]]
	case "panic":
		panic(sentinels["p"+strings.ToUpper(fn[:1])+fn[1:]])
	}
	return nil
}

func newSvcWorld(cfg svcCfg, gated bool) *svcWorld {
	w := &svcWorld{cfg: cfg, g: rt.NewGates(), rec: &rt.Recorder{}, svc: &srv.Service{Name: "sut"},
		enter: map[string]*atomic.Int64{"run": {}, "shut": {}, "clean": {}, "eh": {}}}
	w.parent, w.cancel = context.WithCancel(context.Background())
	hold := func(name string) {
		if gated {
			w.g.Arrive(name)
		} else if w.yield != nil {
			w.yield()
		}
	}
	if cfg.Run != "absent" {
		w.svc.Run = func(ctx context.Context) error {
			w.enter["run"].Add(1)
			w.rec.Log(rt.Event{"ev": "cb_enter", "fn": "run", "argnil": 0})
			if cfg.Mode == "ctx" {
				<-ctx.Done()
				if w.yield != nil {
					w.yield()
				}
			} else {
				hold("run")
			}
			return w.outcome("run", cfg.Run)
		}
	}
	if cfg.Shut != "absent" {
		w.svc.Shutdown = func() error {
			w.enter["shut"].Add(1)
			w.rec.Log(rt.Event{"ev": "cb_enter", "fn": "shut", "argnil": 0})
			hold("shut")
			return w.outcome("shut", cfg.Shut)
		}
	}
	if cfg.Clean != "absent" {
		w.svc.Cleanup = func() error {
			w.enter["clean"].Add(1)
			w.rec.Log(rt.Event{"ev": "cb_enter", "fn": "clean", "argnil": 0})
			hold("clean")
			return w.outcome("clean", cfg.Clean)
		}
	}
	if cfg.Eh != "absent" {
		w.svc.ErrorHandler.Set(func(err error) {
			w.enter["eh"].Add(1)
			w.rec.Log(rt.Event{"ev": "cb_enter", "fn": "eh", "argnil": b2i(err == nil)})
			hold("eh")
			_ = w.outcome("eh", cfg.Eh)
		})
	}
	if gated {
		for _, n := range []string{"run", "shut", "clean", "eh"} {
			w.g.Arm(n)
		}
	}
	w.rec.Log(rt.Event{"ev": "cfg", "run": cfg.Run, "shut": cfg.Shut, "clean": cfg.Clean, "eh": cfg.Eh})
	return w
}

func (w *svcWorld) doStart(id string) *rt.Op {
	return rt.Start(0, func() any {
		w.rec.Log(rt.Event{"ev": "call", "op": "start", "id": id})
		r := classifyStart(w.svc.Start(w.parent))
		w.rec.Log(rt.Event{"ev": "ret", "op": "start", "id": id, "res": r.K, "is": []string{}, "pan": 0, "nil": 0})
		return r
	})
}

func (w *svcWorld) doClose(id string) *rt.Op {
	return rt.Start(0, func() any {
		w.rec.Log(rt.Event{"ev": "call", "op": "close", "id": id})
		w.svc.Close()
		w.rec.Log(rt.Event{"ev": "ret", "op": "close", "id": id, "res": "done", "is": []string{}, "pan": 0, "nil": 0})
		return opRes{K: "done"}
	})
}

func (w *svcWorld) doWait(id string) *rt.Op {
	return rt.Start(0, func() any {
		w.rec.Log(rt.Event{"ev": "call", "op": "wait", "id": id})
		r := classifyWait(w.svc.Wait())
		w.rec.Log(rt.Event{"ev": "ret", "op": "wait", "id": id, "res": r.K, "is": r.Is, "pan": b2i(r.Pan), "nil": b2i(r.Nil)})
		return r
	})
}

func (w *svcWorld) hookHeld() int {
	n := 0
	for _, p := range []string{ptFinished} {
		n += w.g.Waiting(p)
	}
	return n
}

func matches(a alt, r opRes) bool {
	if a.K == "any" {
		return true
	}
	if a.K != r.K {
		return false
	}
	if a.K != "agg" {
		return true
	}
	have := map[string]bool{}
	for _, s := range r.Is {
		have[s] = true
	}
	for _, m := range a.Must {
		if !have[m] {
			return false
		}
	}
	if a.Pan == "t" && !r.Pan {
		return false
	}
	if a.Nil == "t" && !r.Nil || a.Nil == "f" && r.Nil {
		return false
	}
	return true
}

func allows(as []alt, k string) bool {
	for _, a := range as {
		if a.K == k || a.K == "any" {
			return true
		}
	}
	return false
}

var earlyKey = map[string]string{
	"run":   "service/run-invoked-unexpectedly",
	"shut":  "service/shutdown-before-context-end",
	"clean": "service/cleanup-before-run-and-shutdown-returned",
	"eh":    "service/handler-before-cleanup-or-with-nil-aggregate",
}

func opKind(id string) string {
	switch id[:1] {
	case "s":
		return "start"
	case "c":
		return "close"
	}
	return "wait"
}

// mismatchKey names the violated predicate for an operation result the spec does not allow.
func mismatchKey(id string, as []alt, r opRes) string {
	switch opKind(id) {
	case "start":
		if r.K == "nil" {
			return "service/second-start-nil"
		}
		return "service/start-result"
	case "wait":
		if len(as) == 1 && as[0].K == "blocked" {
			return "service/wait-returned-early"
		}
		if r.K == "notstarted" {
			return "service/wait-notstarted-after-start-returned"
		}
		for _, a := range as {
			if a.K == "agg" {
				t := a
				t.Pan, t.Nil = "any", "any"
				if !matches(t, r) {
					return "service/wait-result-misses-error"
				}
				t.Pan = a.Pan
				if !matches(t, r) {
					return "service/wait-result-misses-recovered-panic"
				}
				return "service/wait-result-nil-mismatch"
			}
		}
	}
	return "service/" + opKind(id) + "-result"
}

// compare checks the observations at one quiescent point against what the abstract spec allows;
// nil means conforming.  `seen` is only extended for operations whose result conforms.
func (w *svcWorld) compare(n, k int, st sstep, ops map[string]*rt.Op, seen map[string]bool, startedNil *bool) map[string]any {
	for _, e := range st.Exp.Ops {
		op := ops[e.ID]
		if op == nil || seen[e.ID] {
			continue
		}
		if !op.Done() {
			if !allows(e.Allow, "blocked") {
				return failure(n, k, "service/"+opKind(e.ID)+"-stuck",
					fmt.Sprintf("%s has not returned at quiescence; spec allows %+v", e.ID, e.Allow))
			}
			continue
		}
		r, _ := op.Res.(opRes)
		if op.Pan != nil {
			return failure(n, k, "service/"+opKind(e.ID)+"-panicked", fmt.Sprintf("%s panicked: %v", e.ID, op.Pan))
		}
		okAlt := false
		for _, a := range e.Allow {
			if matches(a, r) {
				okAlt = true
			}
		}
		if !okAlt {
			return failure(n, k, mismatchKey(e.ID, e.Allow, r),
				fmt.Sprintf("%s returned %v at step %d (%s %s %s); spec allows %+v", e.ID, r, k, st.Op, st.ID, st.Arg, e.Allow))
		}
		seen[e.ID] = true
		if r.K == "nil" && opKind(e.ID) == "start" {
			*startedNil = true
		}
	}
	diverged := ""
	for _, fn := range []string{"run", "shut", "clean", "eh"} {
		got, want := int(w.enter[fn].Load()), st.Exp.Cnt[fn]
		switch {
		case got > 1:
			return failure(n, k, "service/"+fn+"-invoked-twice", fmt.Sprintf("%s was invoked %d times", fn, got))
		case got > want:
			return failure(n, k, earlyKey[fn], fmt.Sprintf("%s has been invoked at step %d (%s %s %s) although the spec does not allow it yet",
				fn, k, st.Op, st.ID, st.Arg))
		case got < want:
			diverged = fn
		}
	}
	if diverged != "" {
		return inconclusive(n, fmt.Sprintf("schedule diverged: %s not invoked by quiescence at step %d", diverged, k))
	}
	return nil
}

func replaySvc(n int, b sbeh) map[string]any {
	w := newSvcWorld(b.Cfg, true)
	setHooks(w.g)
	defer setHooks(nil)
	ops := map[string]*rt.Op{}
	seen := map[string]bool{}
	held := map[string]string{} // starter id -> gate it is held in
	startedNil := false
	teardown := func() {
		for _, p := range []string{ptChecked, ptLaunched, ptFinished} {
			untarget(p)
		}
		for _, gname := range held {
			w.g.Disarm(gname)
		}
		for _, x := range []string{"run", "shut", "clean", "eh", ptFinished} {
			w.g.Disarm(x)
		}
		w.rec.Log(rt.Event{"ev": "act", "what": "cancel"})
		w.cancel()
		w.svc.Close()
	}
	if b.Cfg.Holdfin {
		target(ptFinished, ptFinished, true)
	}
	res := func(m map[string]any) map[string]any {
		teardown()
		rt.Quiesce()
		m["hist"] = w.rec.Events()
		return m
	}
	for k, st := range b.Steps {
		switch st.Op {
		case "start":
			switch st.Arg {
			case "checked":
				held[st.ID] = "checked:" + st.ID
				target(ptChecked, held[st.ID], false)
			case "launched":
				held[st.ID] = "launched:" + st.ID
				target(ptLaunched, held[st.ID], false)
			}
			ops[st.ID] = w.doStart(st.ID)
		case "rel":
			gname, ok := held[st.ID]
			if _, err := rt.Quiesce(); err != nil || !ok || !w.g.ReleaseOne(gname) {
				return res(inconclusive(n, "yield point for "+st.ID+" not reached"))
			}
			w.g.Disarm(gname)
			delete(held, st.ID)
		case "relfin":
			if w.g.Waiting(ptFinished) != 1 {
				return res(inconclusive(n, "yield point "+ptFinished+" not reached"))
			}
			untarget(ptFinished)
			w.g.Disarm(ptFinished)
		case "close":
			ops[st.ID] = w.doClose(st.ID)
		case "wait":
			ops[st.ID] = w.doWait(st.ID)
		case "cancel":
			w.rec.Log(rt.Event{"ev": "act", "what": "cancel"})
			w.cancel()
		case "ret":
			if !w.g.ReleaseOne(st.Arg) {
				return res(inconclusive(n, "schedule diverged: "+st.Arg+" is not in flight at step "+fmt.Sprint(k)))
			}
		default:
			panic("unknown op " + st.Op)
		}
		if _, err := rt.Quiesce(); err != nil {
			return res(inconclusive(n, fmt.Sprintf("no quiescence after step %d", k)))
		}
		// a start that was to be held at a yield point but ended before reaching it
		untarget(ptChecked)
		untarget(ptLaunched)
		// --- compare with the observations the abstract spec allows here.  A mismatch is only
		// reported when it persists over further quiescent snapshots (guards against a premature
		// observation on an oversubscribed machine; a genuine mismatch is stable).
		var verdict map[string]any
		for attempt := 0; attempt < 3; attempt++ {
			verdict = w.compare(n, k, st, ops, seen, &startedNil)
			if verdict == nil {
				break
			}
			for y := 0; y < 200; y++ {
				runtime.Gosched()
			}
			if _, err := rt.Quiesce(); err != nil {
				return res(inconclusive(n, fmt.Sprintf("no quiescence after step %d", k)))
			}
		}
		if verdict != nil {
			return res(verdict)
		}
		running := w.svc.Running()
		q := w.hookHeld() == 0 && len(held) == 0
		w.rec.Log(rt.Event{"ev": "probe", "running": b2i(running), "q": b2i(q)})
		if st.Exp.Notrunning && running {
			return res(failure(n, k, "service/running-true-after-wait",
				fmt.Sprintf("Running() is true at a quiescent point after Wait returned (step %d: %s %s %s)", k, st.Op, st.ID, st.Arg)))
		}
	}
	// end of behaviour: let everything finish; a started service must complete every phase once
	teardown()
	if _, err := rt.Quiesce(); err != nil {
		return res(inconclusive(n, "no quiescence at end"))
	}
	for id, op := range ops {
		if !op.Done() && !(opKind(id) == "wait" && !startedNil) {
			return res(failure(n, len(b.Steps), "service/"+opKind(id)+"-stuck", id+" has not returned after the service was shut down"))
		}
		if r, _ := op.Res.(opRes); op.Done() && opKind(id) == "start" && r.K == "nil" {
			startedNil = true
		}
	}
	if startedNil {
		fin := w.doWait("wfinal")
		if _, err := rt.Quiesce(); err != nil {
			return res(inconclusive(n, "no quiescence at end"))
		}
		if !fin.Done() {
			return res(failure(n, len(b.Steps), "service/wait-stuck", "final Wait has not returned after the service was shut down"))
		}
		w.rec.Log(rt.Event{"ev": "probe", "running": b2i(w.svc.Running()), "q": 1})
	}
	w.rec.Log(rt.Event{"ev": "end", "complete": b2i(startedNil)})
	return map[string]any{"n": n, "ok": true, "steps": len(b.Steps), "hist": w.rec.Events()}
}

// ------------------------------------------------------------------ record

var kinds4 = []string{"absent", "ok", "error", "panic"}

// recordSvc runs n random un-stepped scenarios: several goroutines call Start / Close / Wait and
// cancel the parent context while the phases run without gates; the yield points and the phases
// only perturb the scheduling.  Output: {"hist":[events]} per scenario.
func recordSvc(n int, seed int64) {
	rng := rt.NewRand(seed)
	for i := 0; i < n; i++ {
		runtime.GOMAXPROCS(1 + rng.Intn(8))
		cfg := svcCfg{Run: kinds4[1+rng.Intn(3)], Shut: kinds4[rng.Intn(4)], Clean: kinds4[rng.Intn(4)],
			Eh: []string{"absent", "ok", "panic"}[rng.Intn(3)], Mode: []string{"gate", "ctx"}[rng.Intn(2)]}
		if rng.Intn(12) == 0 {
			cfg.Run = "absent"
		}
		w := newSvcWorld(cfg, false)
		var ymu sync.Mutex
		yr := rt.NewRand(rng.Int63())
		weight := rng.Intn(4) // how strongly the yield points are perturbed in this scenario
		y := func() {
			ymu.Lock()
			k := 0
			if weight > 0 {
				k = yr.Intn(1 + 8*weight)
			}
			ymu.Unlock()
			for ; k > 0; k-- {
				runtime.Gosched()
			}
		}
		w.yield = y
		setHooks(nil)
		hookMu.Lock()
		hookYield = func(string) { y() }
		hookMu.Unlock()
		var sw sync.WaitGroup
		launch := func(fn func()) {
			sw.Add(1)
			pre := rng.Intn(30)
			go func() {
				defer sw.Done()
				for ; pre > 0; pre-- {
					runtime.Gosched()
				}
				fn()
			}()
		}
		var ops []*rt.Op
		var omu sync.Mutex
		add := func(o *rt.Op) { omu.Lock(); ops = append(ops, o); omu.Unlock() }
		for s := 0; s < 1+rng.Intn(3); s++ {
			id := fmt.Sprintf("s%d", s+1)
			launch(func() { add(w.doStart(id)) })
		}
		for c := 0; c < rng.Intn(3); c++ {
			id := fmt.Sprintf("c%d", c+1)
			launch(func() { add(w.doClose(id)) })
		}
		for x := 0; x < 1+rng.Intn(2); x++ {
			id := fmt.Sprintf("w%d", x+1)
			launch(func() { add(w.doWait(id)) })
		}
		if rng.Intn(3) == 0 {
			launch(func() { w.rec.Log(rt.Event{"ev": "act", "what": "cancel"}); w.cancel() })
		}
		sw.Wait()
		rt.Quiesce()
		// a second wave once things settled: late Start / Wait callers
		if rng.Intn(2) == 0 {
			add(w.doStart("s9"))
			add(w.doWait("w9"))
			rt.Quiesce()
		}
		w.rec.Log(rt.Event{"ev": "act", "what": "cancel"})
		w.cancel()
		w.svc.Close()
		rt.Quiesce()
		startedNil := false
		stuck := false
		for _, o := range ops {
			if !o.Done() {
				stuck = true
				continue
			}
			if r, _ := o.Res.(opRes); r.K == "nil" {
				startedNil = true
			}
		}
		if startedNil {
			fin := w.doWait("wfinal")
			rt.Quiesce()
			if !fin.Done() {
				stuck = true
			}
			w.rec.Log(rt.Event{"ev": "probe", "running": b2i(w.svc.Running()), "q": 1})
		}
		if stuck {
			w.rec.Log(rt.Event{"ev": "stuck"})
		}
		w.rec.Log(rt.Event{"ev": "end", "complete": b2i(startedNil)})
		hookMu.Lock()
		hookYield = nil
		hookMu.Unlock()
		rt.Emit(map[string]any{"hist": w.rec.Events()})
	}
}
