// vh-srv binds spec/srv to the srv package of tychoish/fun (properties C10 and C11).
//
//	vh-srv replay-svc   < behaviours.ndjson   C10: quiescence-stepped replay of ServiceAbs behaviours
//	vh-srv record-svc N SEED                  C10: un-stepped concurrent histories for ServiceTrace
//	vh-srv replay-c11 [ncpu=k] < behaviours.ndjson   C11: OrchAbs / GroupAbs / PoolAbs / CleanupAbs behaviours
//
// Every behaviour line is {"n":i,"beh":{...}}; the answer is {"begin":i} followed by
// {"n":i,"ok":bool,"key":..,"what":..,"hist":[events]}.  Expectations are never computed here:
// they are part of the behaviour (printed by TLC from the abstract specs); this program only
// executes driver steps against the real code, observes at quiescence and compares.
package main

import (
	"encoding/json"
	"fmt"
	"os"
	"strconv"
	"sync"

	"github.com/tychoish/fun/srv"
	"verif/harness/rt"
)

// ------------------------------------------------------------------ yield points
//
// srv.VerifHook is process global and carries only the name of the point.  The driver
// "targets" a point for exactly one goroutine at a time: while a target is set, the next
// arrival at that point is parked in the gate of that name; all other arrivals pass.

var (
	hookMu     sync.Mutex
	hookGates  *rt.Gates
	hookTarget = map[string]string{} // point -> gate name
	hookSticky = map[string]bool{}   // keep the target after the first arrival
	hookYield  func(point string)    // record mode: perturbation instead of parking
)

func hook(point string) {
	hookMu.Lock()
	g, name := hookGates, hookTarget[point]
	if name != "" && !hookSticky[point] {
		delete(hookTarget, point)
	}
	y := hookYield
	hookMu.Unlock()
	if y != nil {
		y(point)
	}
	if g != nil && name != "" {
		g.Arrive(name)
	}
}

func setHooks(g *rt.Gates) {
	hookMu.Lock()
	hookGates = g
	hookTarget = map[string]string{}
	hookSticky = map[string]bool{}
	hookMu.Unlock()
}

func target(point, gate string, sticky bool) {
	hookMu.Lock()
	hookTarget[point] = gate
	hookSticky[point] = sticky
	hookMu.Unlock()
	hookGates.Arm(gate)
}

func untarget(point string) {
	hookMu.Lock()
	delete(hookTarget, point)
	delete(hookSticky, point)
	hookMu.Unlock()
}

// ------------------------------------------------------------------ results

func inconclusive(n int, why string) map[string]any {
	return map[string]any{"n": n, "ok": true, "inconclusive": why}
}

func failure(n, k int, key, what string) map[string]any {
	return map[string]any{"n": n, "ok": false, "step": k, "key": key, "what": what}
}

func b2i(b bool) int {
	if b {
		return 1
	}
	return 0
}

func main() {
	srv.VerifHook = hook
	if len(os.Args) < 2 {
		fmt.Fprintln(os.Stderr, "usage: vh-srv replay-svc|record-svc|replay-c11")
		os.Exit(2)
	}
	switch os.Args[1] {
	case "replay-svc":
		rt.ReadLines(func(_ int, raw json.RawMessage) {
			var in struct {
				N   int  `json:"n"`
				Beh sbeh `json:"beh"`
			}
			if err := json.Unmarshal(raw, &in); err != nil {
				panic(err)
			}
			rt.Emit(map[string]any{"begin": in.N})
			rt.Flush()
			rt.Emit(replaySvc(in.N, in.Beh))
			rt.Flush()
		})
	case "record-svc":
		n, _ := strconv.Atoi(os.Args[2])
		seed, _ := strconv.Atoi(os.Args[3])
		recordSvc(n, int64(seed))
	case "replay-c11":
		pinCPUs(os.Args[2:]) // "ncpu=k": re-executes the process pinned to k CPUs (C11 Cleanup: one worker per CPU)
		rt.ReadLines(func(_ int, raw json.RawMessage) {
			var in struct {
				N   int  `json:"n"`
				Beh cbeh `json:"beh"`
			}
			if err := json.Unmarshal(raw, &in); err != nil {
				panic(err)
			}
			rt.Emit(map[string]any{"begin": in.N})
			rt.Flush()
			rt.Emit(replayC11(in.N, in.Beh))
			rt.Flush()
		})
	default:
		fmt.Fprintln(os.Stderr, "unknown sub-command "+os.Args[1])
		os.Exit(2)
	}
	rt.Flush()
}
