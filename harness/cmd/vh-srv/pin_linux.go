package main

// runtime.NumCPU() - the number of workers of srv.Cleanup's shutdown pool
// (fun.WorkerGroupConfWorkerPerCPU) - is read once, at process start, from the affinity mask.
// "vh-srv replay-c11 ncpu=k" therefore narrows the affinity mask of the calling thread to k of the
// CPUs it may use and re-executes itself (execve keeps the calling thread's mask).

import (
	"fmt"
	"os"
	"runtime"
	"strconv"
	"strings"
	"syscall"
	"unsafe"
)

func pinCPUs(args []string) {
	want := 0
	for _, a := range args {
		if strings.HasPrefix(a, "ncpu=") {
			want, _ = strconv.Atoi(a[len("ncpu="):])
		}
	}
	if want <= 0 || runtime.NumCPU() == want {
		return
	}
	if os.Getenv("VH_PINNED") != "" || runtime.NumCPU() < want {
		// no second attempt: the behaviours report themselves inconclusive
		fmt.Fprintf(os.Stderr, "vh-srv: cannot pin to %d CPUs (have %d)\n", want, runtime.NumCPU())
		return
	}
	runtime.LockOSThread()
	var mask [128]uint64
	if _, _, e := syscall.RawSyscall(syscall.SYS_SCHED_GETAFFINITY, 0, unsafe.Sizeof(mask), uintptr(unsafe.Pointer(&mask[0]))); e != 0 {
		fmt.Fprintln(os.Stderr, "vh-srv: sched_getaffinity:", e)
		return
	}
	cpus := []int{}
	for i := 0; i < len(mask)*64; i++ {
		if mask[i/64]&(1<<(uint(i)%64)) != 0 {
			cpus = append(cpus, i)
		}
	}
	if len(cpus) < want {
		return
	}
	// spread concurrently running harness processes over the machine
	off := os.Getpid() % len(cpus)
	var narrow [128]uint64
	for k := 0; k < want; k++ {
		c := cpus[(off+k)%len(cpus)]
		narrow[c/64] |= 1 << (uint(c) % 64)
	}
	if _, _, e := syscall.RawSyscall(syscall.SYS_SCHED_SETAFFINITY, 0, unsafe.Sizeof(narrow), uintptr(unsafe.Pointer(&narrow[0]))); e != 0 {
		fmt.Fprintln(os.Stderr, "vh-srv: sched_setaffinity:", e)
		return
	}
	self, err := os.Executable()
	if err != nil {
		return
	}
	env := append(os.Environ(), "VH_PINNED=1")
	if err := syscall.Exec(self, os.Args, env); err != nil {
		fmt.Fprintln(os.Stderr, "vh-srv: exec:", err)
	}
}
