// vh-waitgroup binds spec/waitgroup to fun.WaitGroup (property C14).
//
//	vh-waitgroup replay   < behaviours.ndjson   quiescence-stepped replay of WaitGroupStep behaviours
//	vh-waitgroup record N SEED                  concurrent call/return histories for WaitGroupTrace
package main

import (
	"context"
	"encoding/json"
	"fmt"
	"os"
	"runtime"
	"sort"
	"strconv"
	"sync"
	"sync/atomic"

	"github.com/tychoish/fun"
	"verif/harness/rt"
)

const window = "fun.WaitGroup.Wait.before-cond-wait"

type step struct {
	Op      string          `json:"op"`
	Arg     json.RawMessage `json:"arg"`
	Panic   bool            `json:"panic"`
	Blocked []string        `json:"blocked"`
	Num     int             `json:"num"`
	Manual  int             `json:"manual"`
}

type input struct {
	N   int    `json:"n"`
	Beh []step `json:"beh"`
}

var gates atomic.Pointer[rt.Gates]

func main() {
	fun.VerifHook = func(p string) {
		if g := gates.Load(); g != nil {
			g.Arrive(p)
		}
	}
	if len(os.Args) < 2 {
		fmt.Fprintln(os.Stderr, "usage: vh-waitgroup replay|record")
		os.Exit(2)
	}
	switch os.Args[1] {
	case "replay":
		rt.ReadLines(func(_ int, raw json.RawMessage) {
			var in input
			if err := json.Unmarshal(raw, &in); err != nil {
				panic(err)
			}
			rt.Emit(map[string]any{"begin": in.N})
			rt.Flush()
			rt.Emit(replay(in))
			rt.Flush()
		})
	case "record":
		n, _ := strconv.Atoi(os.Args[2])
		seed, _ := strconv.Atoi(os.Args[3])
		record(n, int64(seed))
	case "storm":
		rounds, _ := strconv.Atoi(os.Args[2])
		k, _ := strconv.Atoi(os.Args[3])
		procs, _ := strconv.Atoi(os.Args[4])
		storm(rounds, k, procs)
	}
	rt.Flush()
}

type world struct {
	wg      *fun.WaitGroup
	g       *rt.Gates
	ctx     map[string]context.Context
	cancel  map[string]context.CancelFunc
	waits   map[string]*rt.Op
	nlaunch int
}

func (w *world) ctxOf(id string) context.Context {
	if c, ok := w.ctx[id]; ok {
		return c
	}
	c, cancel := context.WithCancel(context.Background())
	w.ctx[id], w.cancel[id] = c, cancel
	return c
}

func str(raw json.RawMessage) string { var s string; _ = json.Unmarshal(raw, &s); return s }
func num(raw json.RawMessage) int    { var s int; _ = json.Unmarshal(raw, &s); return s }

func (w *world) blocked() []string {
	out := []string{}
	for id, op := range w.waits {
		if !op.Done() {
			out = append(out, id)
		}
	}
	sort.Strings(out)
	return out
}

func fail(in input, k int, key, what string, extra map[string]any) map[string]any {
	m := map[string]any{"n": in.N, "ok": false, "step": k, "key": key, "what": what}
	for a, b := range extra {
		m[a] = b
	}
	return m
}

func replay(in input) map[string]any {
	w := &world{wg: &fun.WaitGroup{}, g: rt.NewGates(), ctx: map[string]context.Context{},
		cancel: map[string]context.CancelFunc{}, waits: map[string]*rt.Op{}}
	gates.Store(w.g)
	w.g.Arm("op")
	// goroutines left behind by an earlier behaviour of this process are not this one's
	base := map[int]bool{}
	for _, g := range rt.FunGoroutines(rt.Snapshot()) {
		base[g.ID] = true
	}
	bg := context.Background()
	gated := fun.Operation(func(context.Context) { w.g.Arrive("op") })
	defer func() {
		// tear down: everything must be able to finish
		w.g.Disarm("op")
		w.g.Disarm(window)
		for _, c := range w.cancel {
			c()
		}
	}()
	deadManual := -1
	for k, st := range in.Beh {
		var addOp *rt.Op
		heldBefore := w.g.Waiting("op")
		switch st.Op {
		case "launch-dead":
			// the worker context is already cancelled: whatever is started must be accounted for, and nothing else
			dead, dc := context.WithCancel(bg)
			dc()
			n := num(st.Arg)
			switch {
			case n == 1 && w.nlaunch%3 == 0:
				w.wg.Launch(dead, gated)
			case n == 1 && w.nlaunch%3 == 1:
				gated.Add(dead, w.wg)
			case w.nlaunch%2 == 0:
				w.wg.DoTimes(dead, n, gated)
			default:
				gated.StartGroup(dead, w.wg, n)
			}
			w.nlaunch++
			deadManual = st.Manual
		case "wait":
			id := str(st.Arg)
			c := w.ctxOf(id)
			w.waits[id] = rt.Start(k, func() any { w.wg.Wait(c); return "ret" })
		case "add":
			n := num(st.Arg)
			addOp = rt.Start(k, func() any { w.wg.Add(n); return "ok" })
		case "cancel":
			id := str(st.Arg)
			w.ctxOf(id)
			w.cancel[id]()
		case "launch":
			switch w.nlaunch % 3 {
			case 0:
				w.wg.Launch(bg, gated)
			case 1:
				gated.Add(bg, w.wg)
			default:
				gated.StartGroup(bg, w.wg, 1)
			}
			w.nlaunch++
		case "dotimes":
			if n := num(st.Arg); n <= 0 {
				// nothing to start: must change nothing and must not panic (observed like an Add)
				alt := w.nlaunch%2 == 0
				addOp = rt.Start(k, func() any {
					if alt {
						w.wg.DoTimes(bg, n, gated)
					} else {
						gated.StartGroup(bg, w.wg, n)
					}
					return "ok"
				})
				w.nlaunch++
			} else if w.nlaunch%2 == 0 {
				w.wg.DoTimes(bg, num(st.Arg), gated)
			} else {
				gated.StartGroup(bg, w.wg, num(st.Arg))
			}
			w.nlaunch++
		case "finish":
			if _, err := rt.Quiesce(); err != nil {
				return map[string]any{"n": in.N, "ok": true, "inconclusive": "no quiescence before finish"}
			}
			if !w.g.ReleaseOne("op") {
				return fail(in, k, "waitgroup/launched-op-not-running", "no launched operation is held in its gate", nil)
			}
		case "window-cancel", "window-done":
			id := str(st.Arg)
			c := w.ctxOf(id)
			w.g.Arm(window)
			w.waits[id] = rt.Start(k, func() any { w.wg.Wait(c); return "ret" })
			if _, err := rt.Quiesce(); err != nil || w.g.Waiting(window) != 1 {
				w.g.Disarm(window)
				return map[string]any{"n": in.N, "ok": true, "inconclusive": "yield point " + window + " not reached"}
			}
			if st.Op == "window-cancel" {
				w.cancel[id]()
			} else {
				addOp = rt.Start(k, func() any { w.wg.Add(-1); return "ok" })
			}
			if _, err := rt.Quiesce(); err != nil {
				w.g.Disarm(window)
				return map[string]any{"n": in.N, "ok": true, "inconclusive": "no quiescence in window"}
			}
			w.g.Disarm(window)
		default:
			panic("unknown op " + st.Op)
		}
		if _, err := rt.Quiesce(); err != nil {
			return map[string]any{"n": in.N, "ok": true, "inconclusive": "no quiescence after step " + strconv.Itoa(k)}
		}
		if addOp != nil {
			if !addOp.Done() {
				return fail(in, k, "waitgroup/add-blocked", "Add did not return by quiescence", nil)
			}
			got := addOp.Pan != nil
			if got != st.Panic {
				if st.Op == "dotimes" {
					return fail(in, k, "waitgroup/dotimes-nonpositive/panic", fmt.Sprintf("DoTimes/StartGroup(%d) panicked: %v", num(st.Arg), addOp.Pan), nil)
				}
				return fail(in, k, "waitgroup/add-panic", fmt.Sprintf("Add panic=%v, spec says %v", got, st.Panic), nil)
			}
		}
		gotB := w.blocked()
		expB := append([]string{}, st.Blocked...)
		sort.Strings(expB)
		if fmt.Sprint(gotB) != fmt.Sprint(expB) {
			key := "waitgroup/wait-returned-early"
			if len(gotB) > len(expB) {
				key = "waitgroup/wait-stuck"
			}
			return fail(in, k, key, fmt.Sprintf("blocked Wait calls at quiescence: got %v, spec %v", gotB, expB),
				map[string]any{"got": gotB, "exp": expB})
		}
		if st.Op == "launch-dead" {
			k2 := w.g.Waiting("op") - heldBefore
			if n := w.wg.Num(); n != st.Num+k2 {
				return fail(in, k, "waitgroup/launch-on-dead-context/counter", fmt.Sprintf(
					"launch of %d operation(s) with a cancelled context: %d started, Num() went from %d to %d", num(st.Arg), k2, st.Num, n), nil)
			}
			continue
		}
		if n := w.wg.Num(); n != st.Num {
			return fail(in, k, "waitgroup/counter", fmt.Sprintf("Num()=%d, spec %d", n, st.Num), nil)
		}
		if d := w.wg.IsDone(); d != (st.Num == 0) {
			return fail(in, k, "waitgroup/isdone", fmt.Sprintf("IsDone()=%v with counter %d", d, st.Num), nil)
		}
	}
	// end of behaviour: release everything, then nothing of the library may remain
	w.g.Disarm("op")
	w.g.Disarm(window)
	if deadManual >= 0 {
		if _, err := rt.Quiesce(); err != nil {
			return map[string]any{"n": in.N, "ok": true, "inconclusive": "no quiescence at end"}
		}
		if n := w.wg.Num(); n != deadManual {
			return fail(in, len(in.Beh), "waitgroup/launch-on-dead-context/counter", fmt.Sprintf(
				"after every launched operation returned Num()=%d, the client-added part is %d", n, deadManual), nil)
		}
	}
	for _, c := range w.cancel {
		c()
	}
	snap, err := rt.Quiesce()
	if err != nil {
		return map[string]any{"n": in.N, "ok": true, "inconclusive": "no quiescence at end"}
	}
	if b := w.blocked(); len(b) != 0 {
		return fail(in, len(in.Beh), "waitgroup/wait-stuck-after-cancel", fmt.Sprintf("Wait calls %v still blocked after their contexts were cancelled", b), nil)
	}
	var left []rt.G
	for _, g := range rt.FunGoroutines(snap) {
		if !base[g.ID] {
			left = append(left, g)
		}
	}
	if len(left) != 0 {
		return fail(in, len(in.Beh), "waitgroup/goroutine-leak", "library goroutines remain: "+left[0].Stack, nil)
	}
	return map[string]any{"n": in.N, "ok": true, "steps": len(in.Beh)}
}

// ------------------------------------------------------------------ storm

// storm checks the state invariant of WaitGroupStep "counter = 0 => no Wait is blocked" (with live contexts)
// at ONE quiescent point after many unsynchronised rounds: in every round a fresh WaitGroup holds one unit,
// k goroutines call Wait and one calls Done, all released from a barrier, and the driver does not wait for
// anything in between - so the Done lands at every possible point of the waiters' entry sequence (check of the
// counter, locking, helper start, parking).  A Wait that missed the zero stays parked for ever, hence the
// verdict at the final quiescent point is exact and independent of time.
func storm(rounds, k, procs int) {
	runtime.GOMAXPROCS(procs)
	ctx, cancel := context.WithCancel(context.Background())
	type round struct {
		wg       *fun.WaitGroup
		returned atomic.Int32
	}
	rs := make([]*round, rounds)
	for r := range rs {
		rd := &round{wg: &fun.WaitGroup{}}
		rs[r] = rd
		rd.wg.Add(1)
		start := make(chan struct{})
		for i := 0; i < k; i++ {
			go func() { <-start; rd.wg.Wait(ctx); rd.returned.Add(1) }()
		}
		go func() { <-start; rd.wg.Done() }()
		close(start)
		if r%64 == 63 {
			runtime.Gosched()
		}
	}
	out := map[string]any{"storm": rounds, "k": k, "procs": procs}
	if _, err := rt.QuiesceBudget(20000); err != nil {
		out["inconclusive"] = "no quiescence after the storm"
	} else {
		stuck, first := 0, -1
		for r, rd := range rs {
			if n := int(rd.returned.Load()); n != k && rd.wg.Num() == 0 {
				stuck += k - n
				if first < 0 {
					first = r
				}
			}
		}
		out["stuck"], out["first"] = stuck, first
	}
	cancel()
	rt.Quiesce()
	rt.Emit(out)
}

// ------------------------------------------------------------------ record

// record runs n random concurrent scenarios and prints one history per line:
// {"hist":[events...]}.  Events: reset / call / ret / cancel / quiescent (schema DESIGN.md 2.3a).
func record(n int, seed int64) {
	rng := rt.NewRand(seed)
	for i := 0; i < n; i++ {
		runtime.GOMAXPROCS(1 + rng.Intn(8))
		rec := &rt.Recorder{}
		wg := &fun.WaitGroup{}
		gates.Store(nil)
		nthreads := 2 + rng.Intn(3)
		var id atomic.Int64
		var sw sync.WaitGroup
		type ctxpair struct {
			c      context.Context
			cancel context.CancelFunc
		}
		var cmu sync.Mutex
		var ctxs []ctxpair
		start := make(chan struct{})
		for t := 0; t < nthreads; t++ {
			r := rt.NewRand(rng.Int63())
			tn := fmt.Sprintf("t%d", t)
			sw.Add(1)
			go func() {
				defer sw.Done()
				<-start
				nops := 2 + r.Intn(5)
				for j := 0; j < nops; j++ {
					k := id.Add(1)
					switch c := r.Intn(10); {
					case c < 4:
						d := []int{1, 1, 2, -1, -1, -2}[r.Intn(6)]
						rec.Log(rt.Event{"ev": "call", "t": tn, "id": k, "op": "add", "arg": d})
						res := "ok"
						func() {
							defer func() {
								if recover() != nil {
									res = "panic"
								}
							}()
							wg.Add(d)
						}()
						rec.Log(rt.Event{"ev": "ret", "t": tn, "id": k, "res": res})
					case c < 8:
						cc, cancel := context.WithCancel(context.Background())
						cmu.Lock()
						ctxs = append(ctxs, ctxpair{cc, cancel})
						cmu.Unlock()
						rec.Log(rt.Event{"ev": "call", "t": tn, "id": k, "op": "wait", "arg": 0})
						if r.Intn(3) == 0 {
							// a sibling goroutine cancels this wait's context at some point
							go func() {
								for y := r.Intn(20); y > 0; y-- {
									runtime.Gosched()
								}
								rec.Log(rt.Event{"ev": "cancel", "id": k})
								cancel()
							}()
						}
						wg.Wait(cc)
						rec.Log(rt.Event{"ev": "ret", "t": tn, "id": k, "res": "ret"})
					default:
						rec.Log(rt.Event{"ev": "call", "t": tn, "id": k, "op": "num", "arg": 0})
						v := wg.Num()
						rec.Log(rt.Event{"ev": "ret", "t": tn, "id": k, "res": strconv.Itoa(v)})
					}
				}
			}()
		}
		close(start)
		// observe a quiescent point: blocked waits must be justified by the abstract state
		if _, err := rt.Quiesce(); err == nil {
			evs := rec.Events()
			pend := map[int64]bool{}
			for _, e := range evs {
				switch e["ev"] {
				case "call":
					pend[e["id"].(int64)] = true
				case "ret":
					delete(pend, e["id"].(int64))
				}
			}
			ids := []int64{}
			for k := range pend {
				ids = append(ids, k)
			}
			sort.Slice(ids, func(a, b int) bool { return ids[a] < ids[b] })
			rec.Log(rt.Event{"ev": "quiescent", "blocked": ids, "num": wg.Num()})
		}
		// let everything finish: bring the counter to zero
		for wg.Num() > 0 {
			k := id.Add(1)
			rec.Log(rt.Event{"ev": "call", "t": "drv", "id": k, "op": "add", "arg": -1})
			wg.Add(-1)
			rec.Log(rt.Event{"ev": "ret", "t": "drv", "id": k, "res": "ok"})
			rt.Quiesce()
		}
		sw.Wait()
		cmu.Lock()
		for _, c := range ctxs {
			c.cancel()
		}
		cmu.Unlock()
		rt.Quiesce()
		rt.Emit(map[string]any{"hist": rec.Events()})
	}
}
