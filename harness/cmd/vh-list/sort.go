package main

import (
	"encoding/json"
	"fmt"

	"github.com/tychoish/fun/dt"
)

type tailStep struct {
	Op  string `json:"op"`
	Ret int    `json:"ret"` // 0 no return value, -1 an element with Ok()=false, else a token
	L   []int  `json:"l"`   // expected list in tokens: k>0 k-th element of the sort result, >100 pushed by the tail
}

type sortCase struct {
	In     []int      `json:"in"`
	Cmp    string     `json:"cmp"`
	Sorted bool       `json:"sorted"`
	Rank   []int      `json:"rank"`
	Stable []int      `json:"stable"` // 1-based indices into In
	Tail   []tailStep `json:"tail"`
	M      string     `json:"m"` // method to judge (added by the driver): IsSorted | SortQuick | SortMerge | "" = all
}

// checkList compares both walks, Len, Slice, iterators, In and Ok of a real list with an expected
// element sequence (identities).  Returns the failed predicate.
func checkList(l *dt.List[int], exp []*elem, label func(*elem) string) (pred, what string) {
	bound := len(exp) + 3
	names := func(es []*elem) []string {
		out := make([]string, len(es))
		for i, e := range es {
			out[i] = label(e)
		}
		return out
	}
	var fw, bw []*elem
	e := l.Front()
	for i := 0; i < bound && e.Ok(); i++ {
		fw = append(fw, e)
		e = e.Next()
	}
	if !eqStr(names(fw), names(exp)) {
		return "forward-walk", fmt.Sprintf("Front()..Next() yields %v, spec %v", names(fw), names(exp))
	}
	fend := e
	e = l.Back()
	for i := 0; i < bound && e.Ok(); i++ {
		bw = append(bw, e)
		e = e.Previous()
	}
	if !eqStr(names(rev(bw)), names(exp)) {
		return "backward-walk", fmt.Sprintf("reversed Back()..Previous() yields %v, spec %v", names(rev(bw)), names(exp))
	}
	if e != fend {
		return "backward-walk", "forward and backward walks end at different elements"
	}
	if l.Len() != len(exp) {
		return "len", fmt.Sprintf("Len()=%d, spec %d", l.Len(), len(exp))
	}
	expv := make([]int, len(exp))
	for i, x := range exp {
		expv[i] = x.Value()
	}
	if got := []int(l.Slice()); !eqInts(got, expv) {
		return "slice", fmt.Sprintf("Slice()=%v, walk %v", got, expv)
	}
	var itv []int
	it := l.Iterator()
	for i := 0; i < bound && it.Next(bg); i++ {
		itv = append(itv, it.Value())
	}
	if !eqInts(itv, expv) {
		return "iterator", fmt.Sprintf("Iterator() yields %v, walk %v", itv, expv)
	}
	itv = nil
	it = l.Reverse()
	for i := 0; i < bound && it.Next(bg); i++ {
		itv = append(itv, it.Value())
	}
	if !eqInts(rev(itv), expv) {
		return "reverse-iterator", fmt.Sprintf("Reverse() yields %v, walk %v", itv, expv)
	}
	for _, x := range exp {
		if !x.In(l) {
			return "in", fmt.Sprintf("element %s of the list reports In(list)=false", label(x))
		}
		if !x.Ok() {
			return "ok", fmt.Sprintf("element %s of the list reports Ok()=false", label(x))
		}
	}
	return "", ""
}

// sortOnce runs one sort method on a fresh list holding c.In and judges it with the parameters of
// the spec line only (rank, stable, sorted, tail).
func sortOnce(c *sortCase, method string) *mismatch {
	op := method
	fail := func(pred, what string) *mismatch {
		return &mismatch{0, "list/" + op + "/" + pred, fmt.Sprintf("%s(%s) on %v: %s", op, c.Cmp, c.In, what)}
	}
	l := &dt.List[int]{}
	l.Append(c.In...)
	// identities of the input elements
	idx := map[*elem]int{}
	var input []*elem
	e := l.Front()
	for i := 0; i < len(c.In)+3 && e.Ok(); i++ {
		idx[e] = len(input) + 1
		input = append(input, e)
		e = e.Next()
	}
	if len(input) != len(c.In) {
		op = "Append"
		return fail("forward-walk", fmt.Sprintf("list built by Append has %d elements", len(input)))
	}
	pushed := map[*elem]int{}
	label := func(x *elem) string {
		if x == nil {
			return "nil"
		}
		if k, ok := idx[x]; ok {
			return fmt.Sprintf("in%d(%d)", k, x.Value())
		}
		if k, ok := pushed[x]; ok {
			return fmt.Sprintf("new%d", k)
		}
		return "?"
	}
	lt := ltOf(c.Cmp)
	if method == "IsSorted" {
		if got := l.IsSorted(lt); got != c.Sorted {
			return fail("result", fmt.Sprintf("IsSorted=%v, spec %v", got, c.Sorted))
		}
		if p, what := checkList(l, input, label); p != "" {
			return fail(p, "after IsSorted: "+what)
		}
		return nil
	}
	if method == "SortMerge" {
		l.SortMerge(lt)
	} else {
		l.SortQuick(lt)
	}
	// the result: bounded forward walk
	var out []*elem
	e = l.Front()
	for i := 0; i < len(c.In)+3 && e.Ok(); i++ {
		out = append(out, e)
		e = e.Next()
	}
	names := func(es []*elem) []string {
		o := make([]string, len(es))
		for i, x := range es {
			o[i] = label(x)
		}
		return o
	}
	// permutation by identity
	seen := map[int]bool{}
	for _, x := range out {
		k, ok := idx[x]
		if !ok || seen[k] {
			return fail("permutation", fmt.Sprintf("result %v is not a permutation of the input elements", names(out)))
		}
		seen[k] = true
	}
	if len(out) != len(input) {
		return fail("permutation", fmt.Sprintf("result %v has %d of the %d input elements", names(out), len(out), len(input)))
	}
	// sortedness through the spec's ranks
	for i := 0; i+1 < len(out); i++ {
		if c.Rank[idx[out[i+1]]-1] < c.Rank[idx[out[i]]-1] {
			return fail("sorted", fmt.Sprintf("result %v: element %d is lt its predecessor", names(out), i+2))
		}
	}
	if method == "SortQuick" {
		for i := range out {
			if idx[out[i]] != c.Stable[i] {
				return fail("stable", fmt.Sprintf("result %v is sorted but not the stable order %v (input indices)", names(out), c.Stable))
			}
		}
	}
	// values untouched
	for _, x := range input {
		if x.Value() != c.In[idx[x]-1] {
			return fail("value", fmt.Sprintf("element %s changed its value", label(x)))
		}
	}
	// well-formed, and IsSorted agrees
	if p, what := checkList(l, out, label); p != "" {
		return fail(p, "after sorting: "+what)
	}
	if !l.IsSorted(lt) {
		op = "IsSorted"
		return fail("result", fmt.Sprintf("IsSorted=false on the verified-sorted result %v", names(out)))
	}
	// "fully usable afterwards": the tail, expressed in tokens relative to the actual result
	tok := map[int]*elem{}
	for i, x := range out {
		tok[i+1] = x
	}
	for k, ts := range c.Tail {
		var ret *elem
		switch ts.Op {
		case "PushBack":
			l.PushBack(1000 + k)
			ne := l.Back()
			t := 101 + len(pushed)
			pushed[ne], tok[t] = t-100, ne
		case "PushFront":
			l.PushFront(1000 + k)
			ne := l.Front()
			t := 101 + len(pushed)
			pushed[ne], tok[t] = t-100, ne
		case "PopFront":
			ret = l.PopFront()
		case "PopBack":
			ret = l.PopBack()
		default:
			panic("harness: unknown tail op " + ts.Op)
		}
		what := fmt.Sprintf("tail step %d %s after sorting: ", k, ts.Op)
		switch {
		case ts.Ret == -1:
			if ret.Ok() {
				return fail("usable-after/return", what+"returned "+label(ret)+", spec: an element with Ok()=false")
			}
		case ts.Ret > 0:
			if ret != tok[ts.Ret] {
				return fail("usable-after/return", what+"returned "+label(ret)+", spec "+label(tok[ts.Ret]))
			}
			if ret.In(l) {
				return fail("usable-after/in", what+"popped element still reports In(list)")
			}
		}
		exp := make([]*elem, len(ts.L))
		for i, t := range ts.L {
			exp[i] = tok[t]
		}
		if p, w := checkList(l, exp, label); p != "" {
			return fail("usable-after/"+p, what+w)
		}
	}
	return nil
}

func replaySort(n int, raw json.RawMessage) result {
	var c sortCase
	if err := json.Unmarshal(raw, &c); err != nil {
		panic(err)
	}
	// binding check: the Go comparator must be the spec's relation on this input (else no verdict)
	lt := ltOf(c.Cmp)
	for i := range c.In {
		for j := range c.In {
			if lt(c.In[i], c.In[j]) != (c.Rank[i] < c.Rank[j]) {
				return result{"n": n, "ok": true, "inconclusive": fmt.Sprintf("comparator %s disagrees with the spec's ranks on %v", c.Cmp, c.In)}
			}
		}
	}
	for _, m := range []string{"IsSorted", "SortQuick", "SortMerge"} {
		if c.M != "" && c.M != m {
			continue
		}
		if mm := guard("list", m, 0, func() *mismatch { return sortOnce(&c, m) }); mm != nil {
			return mm.res(n)
		}
	}
	return okRes(n, 3)
}

// ------------------------------------------------------------------ heap

type hstep struct {
	Op    string `json:"op"`
	Cmp   string `json:"cmp"`
	V     int    `json:"v"`
	ID    int    `json:"id"`
	Ok    bool   `json:"ok"`
	OneOf []int  `json:"oneof"`
	Rest  []int  `json:"rest"`
	Keys  []int  `json:"keys"`
}

type hitem struct{ id, v int }

func replayHeap(n int, raw json.RawMessage) result {
	var beh []hstep
	if err := json.Unmarshal(raw, &beh); err != nil {
		panic(err)
	}
	if len(beh) == 0 {
		return okRes(n, 0)
	}
	c := beh[0].Cmp
	ltv := ltOf(c)
	h := &dt.Heap[hitem]{LT: func(a, b hitem) bool { return ltv(a.v, b.v) }}
	for k := range beh {
		st := &beh[k]
		diverged := false
		mm := guard("heap", st.Op, k, func() *mismatch {
			switch st.Op {
			case "Push":
				h.Push(hitem{st.ID, st.V})
			case "Pop":
				got, ok := h.Pop()
				if ok != st.Ok {
					return &mismatch{k, "heap/Pop/ok", fmt.Sprintf("Pop ok=%v, spec %v", ok, st.Ok)}
				}
				if ok {
					if !contains(st.OneOf, got.id) {
						return &mismatch{k, "heap/Pop/not-minimal", fmt.Sprintf("Pop returned element %d (value %d), the minimal elements are %v", got.id, got.v, st.OneOf)}
					}
					if got.v != st.V && got.id == st.ID {
						return &mismatch{k, "heap/Pop/value", fmt.Sprintf("element %d came back with value %d, pushed %d", got.id, got.v, st.V)}
					}
					if got.id != st.ID {
						diverged = true // correct, but not the stable choice the model continues with
					}
				}
			default:
				panic("harness: unknown heap op " + st.Op)
			}
			if !diverged && h.Len() != len(st.Rest) {
				return &mismatch{k, "heap/" + st.Op + "/len", fmt.Sprintf("Len()=%d, spec %d", h.Len(), len(st.Rest))}
			}
			return nil
		})
		if mm != nil {
			mm.what = fmt.Sprintf("step %d %s(%d) cmp %s: %s", k, st.Op, st.V, c, mm.what)
			return mm.res(n)
		}
		if diverged {
			return result{"n": n, "ok": true, "inconclusive": "a correct but not stable Pop: the model's continuation does not apply"}
		}
	}
	// drain: every remaining element exactly once, keys never decreasing
	last := &beh[len(beh)-1]
	mm := guard("heap", "drain", len(beh), func() *mismatch {
		keyOfID := map[int]int{}
		for i, id := range last.Rest {
			keyOfID[id] = last.Keys[i]
		}
		var ids []int
		prev, first := 0, true
		for i := 0; i < len(last.Rest)+3; i++ {
			got, ok := h.Pop()
			if !ok {
				break
			}
			key, present := keyOfID[got.id]
			if !present {
				return &mismatch{len(beh), "heap/drain/exactly-once", fmt.Sprintf("drain popped element %d which is not in the heap (popped so far %v, spec content %v)", got.id, ids, last.Rest)}
			}
			delete(keyOfID, got.id)
			if !first && key < prev {
				return &mismatch{len(beh), "heap/drain/order", fmt.Sprintf("drain popped element %d (key %d) after key %d", got.id, key, prev)}
			}
			prev, first = key, false
			ids = append(ids, got.id)
		}
		if len(keyOfID) != 0 || h.Len() != 0 {
			return &mismatch{len(beh), "heap/drain/exactly-once", fmt.Sprintf("drain popped %v, spec content %v, Len afterwards %d", ids, last.Rest, h.Len())}
		}
		return nil
	})
	if mm != nil {
		mm.what = fmt.Sprintf("cmp %s: %s", c, mm.what)
		return mm.res(n)
	}
	return okRes(n, len(beh))
}
