// vh-list binds spec/list (ListSeq, StackSeq) and spec/sort (Sort, Heap) to dt.List,
// dt.Stack, List.SortMerge/SortQuick/IsSorted and dt.Heap (properties C16 and C17).
//
//	vh-list list   < behaviours.ndjson   ListSeq behaviours, full-state comparison after every step
//	vh-list stack  < behaviours.ndjson   StackSeq behaviours
//	vh-list sort   < cases.ndjson        Sort cases (IsSorted, SortMerge, SortQuick, usability tail)
//	vh-list heap   < behaviours.ndjson   Heap behaviours
//
// Input lines are {"n":i,"beh":...}; output {"begin":i} then {"n":i,"ok":bool,"key":..,"what":..}.
// All expectations are read from the input (they were printed by TLC); this program only
// executes the real code and compares.  Every walk over a real structure is bounded so that a
// corrupted (cyclic) structure is reported instead of looped on; panics are recovered and
// reported under their own key.
package main

import (
	"context"
	"encoding/json"
	"fmt"
	"os"
	"runtime/debug"
	"strings"

	"github.com/tychoish/fun/dt/cmp"
	"verif/harness/rt"
)

var bg = context.Background()

type result = map[string]any

func okRes(n, steps int) result { return result{"n": n, "ok": true, "steps": steps} }

// mismatch is the one way a replay fails: which step, which operation, which predicate.
type mismatch struct {
	step int
	key  string
	what string
}

func (m *mismatch) res(n int) result {
	return result{"n": n, "ok": false, "step": m.step, "key": m.key, "what": m.what}
}

// guard runs fn and turns a panic into a mismatch with key <comp>/<op>/panic.
func guard(comp, op string, step int, fn func() *mismatch) (mm *mismatch) {
	defer func() {
		if r := recover(); r != nil {
			st := string(debug.Stack())
			if i := strings.Index(st, "panic("); i >= 0 {
				st = st[i:]
			}
			if len(st) > 900 {
				st = st[:900]
			}
			mm = &mismatch{step, comp + "/" + op + "/panic", fmt.Sprintf("panic: %v\n%s", r, st)}
		}
	}()
	return fn()
}

// ------------------------------------------------------------------ comparators
// the same key projections as spec/sort/SortDefs.tla (mathematical mod and floor division)

func floorDiv2(x int) int {
	if x >= 0 {
		return x / 2
	}
	return -((-x + 1) / 2)
}

func keyOf(c string, x int) int {
	switch c {
	case "lt":
		return x
	case "gt":
		return -x
	case "mod2":
		return ((x % 2) + 2) % 2
	case "div2":
		return floorDiv2(x)
	}
	panic("unknown comparator " + c)
}

// ltOf builds the comparator handed to the library, through the library's own constructors.
func ltOf(c string) cmp.LessThan[int] {
	switch c {
	case "lt":
		return cmp.LessThanNative[int]
	case "gt":
		return func(a, b int) bool { return cmp.LessThanNative(b, a) }
	default:
		return cmp.LessThanConverter(func(x int) int { return keyOf(c, x) })
	}
}

func eqInts(a, b []int) bool {
	if len(a) != len(b) {
		return false
	}
	for i := range a {
		if a[i] != b[i] {
			return false
		}
	}
	return true
}

func main() {
	if len(os.Args) < 2 {
		fmt.Fprintln(os.Stderr, "usage: vh-list list|stack|sort|heap")
		os.Exit(2)
	}
	var fn func(n int, raw json.RawMessage) result
	switch os.Args[1] {
	case "list":
		fn = replayList
	case "stack":
		fn = replayStack
	case "sort":
		fn = replaySort
	case "heap":
		fn = replayHeap
	default:
		fmt.Fprintln(os.Stderr, "unknown mode "+os.Args[1])
		os.Exit(2)
	}
	rt.ReadLines(func(_ int, raw json.RawMessage) {
		var in struct {
			N   int             `json:"n"`
			Beh json.RawMessage `json:"beh"`
		}
		if err := json.Unmarshal(raw, &in); err != nil {
			panic(err)
		}
		rt.Emit(map[string]any{"begin": in.N})
		rt.Flush()
		rt.Emit(fn(in.N, in.Beh))
		rt.Flush()
	})
	rt.Flush()
}
