package main

import (
	"encoding/json"
	"fmt"
	"strconv"

	"github.com/tychoish/fun/dt"
)

type sstep struct {
	Op  string   `json:"op"`
	Cs  string   `json:"cs"`
	A   []string `json:"a"`
	Iv  []int    `json:"iv"`
	Ret string   `json:"ret"`
	SS  []int    `json:"S"`
	ST  []int    `json:"T"`
	Val []int    `json:"val"`
}

type item = dt.Item[int]

type sworld struct {
	s    map[string]*dt.Stack[int]
	it   []*item
	name map[*item]string
}

func newSWorld() *sworld {
	return &sworld{s: map[string]*dt.Stack[int]{"S": {}, "T": {}}, it: []*item{nil}, name: map[*item]string{}}
}

func (w *sworld) add(i *item) {
	w.it = append(w.it, i)
	if _, dup := w.name[i]; !dup && i != nil {
		w.name[i] = "i" + strconv.Itoa(len(w.it)-1)
	}
}

func (w *sworld) nameOf(i *item) string {
	if i == nil {
		return "nil"
	}
	if n, ok := w.name[i]; ok {
		return n
	}
	return "?"
}

// bottom resolves the sentinel of stack X: the item on which a bounded Head()..Next() walk ends.
func (w *sworld) bottom(X string) *item {
	i := w.s[X].Head()
	for n := 0; n < len(w.it)+3 && i.Ok(); n++ {
		i = i.Next()
	}
	return i
}

func (w *sworld) handle(h string) *item {
	switch h {
	case "nil":
		return nil
	case "bS":
		return w.bottom("S")
	case "bT":
		return w.bottom("T")
	}
	k, err := strconv.Atoi(h[1:])
	if err != nil || k <= 0 || k >= len(w.it) {
		panic("harness: bad handle " + h)
	}
	return w.it[k]
}

func itemNames(ids []int) []string {
	out := make([]string, len(ids))
	for i, k := range ids {
		out[i] = "i" + strconv.Itoa(k)
	}
	return out
}

func (w *sworld) observeStack(X string, ids []int, val []int) (pred, what string) {
	s := w.s[X]
	exp := itemNames(ids)
	expv := make([]int, len(ids))
	for i, k := range ids {
		expv[i] = val[k-1]
	}
	bound := len(ids) + 3
	var got []string
	i := s.Head()
	for n := 0; n < bound && i.Ok(); n++ {
		got = append(got, w.nameOf(i))
		i = i.Next()
	}
	if !eqStr(got, exp) {
		return "walk", fmt.Sprintf("stack %s: Head()..Next() yields %v, spec %v", X, got, exp)
	}
	if n := s.Len(); n != len(ids) {
		return "len", fmt.Sprintf("stack %s: Len()=%d, spec %d", X, n, len(ids))
	}
	var itv []int
	it := s.Iterator()
	for n := 0; n < bound && it.Next(bg); n++ {
		itv = append(itv, it.Value())
	}
	if !eqInts(itv, expv) {
		return "iterator", fmt.Sprintf("stack %s: Iterator() yields %v, spec %v", X, itv, expv)
	}
	data, err := s.MarshalJSON()
	var dec []int
	if err == nil {
		err = json.Unmarshal(data, &dec)
	}
	if err != nil || !eqInts(dec, expv) {
		return "marshal", fmt.Sprintf("stack %s: MarshalJSON gives %s (%v), spec %v", X, data, err, expv)
	}
	return "", ""
}

func (w *sworld) observeAll(op string, k int, st *sstep) *mismatch {
	for _, X := range []string{"S", "T"} {
		ids := st.SS
		if X == "T" {
			ids = st.ST
		}
		if p, what := w.observeStack(X, ids, st.Val); p != "" {
			return &mismatch{k, "stack/" + op + "/" + p, what}
		}
	}
	for n := 1; n < len(w.it); n++ {
		i := w.it[n]
		if i == nil {
			return &mismatch{k, "stack/" + op + "/handle", fmt.Sprintf("item i%d was never obtained from the stack", n)}
		}
		if got, exp := i.In(w.s["S"]), contains(st.SS, n); got != exp {
			return &mismatch{k, "stack/" + op + "/in", fmt.Sprintf("i%d.In(S)=%v, spec %v", n, got, exp)}
		}
		if got, exp := i.In(w.s["T"]), contains(st.ST, n); got != exp {
			return &mismatch{k, "stack/" + op + "/in", fmt.Sprintf("i%d.In(T)=%v, spec %v", n, got, exp)}
		}
		if !i.Ok() {
			return &mismatch{k, "stack/" + op + "/ok", fmt.Sprintf("i%d.Ok()=false", n)}
		}
		if got := i.Value(); got != st.Val[n-1] {
			return &mismatch{k, "stack/" + op + "/value", fmt.Sprintf("i%d.Value()=%d, spec %d", n, got, st.Val[n-1])}
		}
	}
	var nilI *item
	if nilI.Ok() {
		return &mismatch{k, "stack/" + op + "/ok", "nil item reports Ok()"}
	}
	return nil
}

// topN returns the n top items of stack X, top first.
func (w *sworld) topN(X string, n int) []*item {
	out := make([]*item, n)
	i := w.s[X].Head()
	for k := 0; k < n; k++ {
		out[k] = i
		if i != nil {
			i = i.Next()
		}
	}
	return out
}

func (w *sworld) apply(k int, st *sstep) *mismatch {
	var rb *bool
	var ri *item
	hasI := false
	setB := func(b bool) { rb = &b }
	setI := func(i *item) { ri, hasI = i, true }
	switch st.Op {
	case "Push":
		s := w.s[st.A[0]]
		s.Push(st.Iv[0])
		w.add(s.Head())
	case "PushMany":
		w.s[st.A[0]].Append(st.Iv...)
		for _, i := range rev(w.topN(st.A[0], len(st.Iv))) {
			w.add(i)
		}
	case "NewItem":
		i := dt.NewItem(st.Iv[0])
		w.add(i)
		setI(i)
	case "Pop":
		setI(w.s[st.A[0]].Pop())
	case "Append":
		setI(w.handle(st.A[0]).Append(w.handle(st.A[1])))
	case "Remove":
		setB(w.handle(st.A[0]).Remove())
	case "JSONRound":
		data, err := w.s[st.A[1]].MarshalJSON()
		if err != nil {
			return &mismatch{k, "stack/MarshalJSON/error", err.Error()}
		}
		var dec []int
		if err := json.Unmarshal(data, &dec); err != nil || !eqInts(dec, st.Iv) {
			return &mismatch{k, "stack/MarshalJSON/content", fmt.Sprintf("MarshalJSON gives %s, spec %v", data, st.Iv)}
		}
		if err := w.s[st.A[0]].UnmarshalJSON(data); err != nil {
			return &mismatch{k, "stack/UnmarshalJSON/error", err.Error()}
		}
		for _, i := range w.topN(st.A[0], len(st.Iv)) {
			w.add(i)
		}
	default:
		panic("harness: unknown stack op " + st.Op)
	}
	if len(w.it)-1 != len(st.Val) {
		panic(fmt.Sprintf("harness: %d items known, spec has %d", len(w.it)-1, len(st.Val)))
	}
	switch st.Ret {
	case "-":
	case "true", "false":
		if rb == nil || *rb != (st.Ret == "true") {
			return &mismatch{k, "stack/" + st.Op + "/return", fmt.Sprintf("%s returned %v, spec %s", st.Op, deref(rb), st.Ret)}
		}
	case "none":
		if !hasI || ri.Ok() {
			return &mismatch{k, "stack/" + st.Op + "/return", fmt.Sprintf("%s returned %s, spec: an item with Ok()=false", st.Op, w.nameOf(ri))}
		}
	default:
		if !hasI || ri != w.handle(st.Ret) {
			return &mismatch{k, "stack/" + st.Op + "/return", fmt.Sprintf("%s returned %s, spec %s", st.Op, w.nameOf(ri), st.Ret)}
		}
	}
	return w.observeAll(st.Op, k, st)
}

func replayStack(n int, raw json.RawMessage) result {
	var beh []sstep
	if err := json.Unmarshal(raw, &beh); err != nil {
		panic(err)
	}
	w := newSWorld()
	for k := range beh {
		st := &beh[k]
		if mm := guard("stack", st.Op, k, func() *mismatch { return w.apply(k, st) }); mm != nil {
			mm.what = fmt.Sprintf("step %d %s%v %v [%s]: %s", k, st.Op, st.A, st.Iv, st.Cs, mm.what)
			return mm.res(n)
		}
	}
	if len(beh) > 0 {
		last := &beh[len(beh)-1]
		mm := guard("stack", "end", len(beh), func() *mismatch {
			// the destructive iterator drains the real stacks: values in LIFO order, Len 0 afterwards
			for _, X := range []string{"S", "T"} {
				ids := last.SS
				if X == "T" {
					ids = last.ST
				}
				expv := make([]int, len(ids))
				for i, id := range ids {
					expv[i] = last.Val[id-1]
				}
				var got []int
				it := w.s[X].PopIterator()
				for i := 0; i < len(ids)+3 && it.Next(bg); i++ {
					got = append(got, it.Value())
				}
				if !eqInts(got, expv) || w.s[X].Len() != 0 {
					return &mismatch{len(beh), "stack/pop-iterator/content", fmt.Sprintf("stack %s: PopIterator() yields %v and leaves Len %d, spec %v / 0",
						X, got, w.s[X].Len(), expv)}
				}
			}
			return nil
		})
		if mm != nil {
			return mm.res(n)
		}
	}
	return okRes(n, len(beh))
}
