package main

import (
	"encoding/json"
	"fmt"
	"strconv"

	"github.com/tychoish/fun/dt"
)

type lstep struct {
	Op  string   `json:"op"`
	Cs  string   `json:"cs"`
	A   []string `json:"a"`
	Iv  []int    `json:"iv"`
	Ret string   `json:"ret"`
	LA  []int    `json:"A"`
	LB  []int    `json:"B"`
	Val []int    `json:"val"`
	Ok  []bool   `json:"ok"`
}

type elem = dt.Element[int]

// lworld maps the spec's identities to real objects.
type lworld struct {
	l    map[string]*dt.List[int]
	root map[string]*elem // the sentinel, learnt from the first well-formed walk
	el   []*elem          // el[k] = element k (1-based), el[0] unused
	name map[*elem]string
	end  map[string]*elem // where the last well-formed walk of each list ended
}

func newLWorld() *lworld {
	return &lworld{l: map[string]*dt.List[int]{"A": {}, "B": {}}, root: map[string]*elem{},
		el: []*elem{nil}, name: map[*elem]string{}, end: map[string]*elem{}}
}

func (w *lworld) add(e *elem) {
	w.el = append(w.el, e)
	if _, dup := w.name[e]; !dup && e != nil {
		w.name[e] = "e" + strconv.Itoa(len(w.el)-1)
	}
}

func (w *lworld) nameOf(e *elem) string {
	if e == nil {
		return "nil"
	}
	if n, ok := w.name[e]; ok {
		return n
	}
	for L, r := range w.root {
		if r == e {
			return "r" + L
		}
	}
	return "?"
}

func (w *lworld) names(es []*elem) []string {
	out := make([]string, len(es))
	for i, e := range es {
		out[i] = w.nameOf(e)
	}
	return out
}

// rootOf resolves the sentinel of list L: Front() of an empty list, or the element before the
// first one.  It is cached by the first observation that found the list well-formed.
func (w *lworld) rootOf(L string) *elem {
	if r, ok := w.root[L]; ok {
		return r
	}
	l := w.l[L]
	f := l.Front()
	if !f.Ok() {
		return f
	}
	return f.Previous()
}

func (w *lworld) handle(h string) *elem {
	switch h {
	case "nil":
		return nil
	case "rA":
		return w.rootOf("A")
	case "rB":
		return w.rootOf("B")
	}
	k, err := strconv.Atoi(h[1:])
	if err != nil || k <= 0 || k >= len(w.el) {
		panic("harness: bad handle " + h)
	}
	return w.el[k]
}

func idNames(ids []int) []string {
	out := make([]string, len(ids))
	for i, k := range ids {
		out[i] = "e" + strconv.Itoa(k)
	}
	return out
}

func eqStr(a, b []string) bool {
	if len(a) != len(b) {
		return false
	}
	for i := range a {
		if a[i] != b[i] {
			return false
		}
	}
	return true
}

func rev[T any](in []T) []T {
	out := make([]T, len(in))
	for i := range in {
		out[len(in)-1-i] = in[i]
	}
	return out
}

// observeList compares everything C16 names for one list with the expected identity sequence.
// pred is the first predicate that fails ("" if none).
func (w *lworld) observeList(L string, ids []int, val []int) (pred, what string) {
	l := w.l[L]
	exp := idNames(ids)
	expv := make([]int, len(ids))
	for i, k := range ids {
		expv[i] = val[k-1]
	}
	bound := len(ids) + 3
	// forward walk Front()..Next()
	var fw []*elem
	e := l.Front()
	for i := 0; i < bound && e.Ok(); i++ {
		fw = append(fw, e)
		e = e.Next()
	}
	if got := w.names(fw); !eqStr(got, exp) {
		return "forward-walk", fmt.Sprintf("list %s: Front()..Next() yields %v, spec %v", L, got, exp)
	}
	fend := e
	// backward walk Back()..Previous(), reversed
	var bw []*elem
	e = l.Back()
	for i := 0; i < bound && e.Ok(); i++ {
		bw = append(bw, e)
		e = e.Previous()
	}
	if got := w.names(rev(bw)); !eqStr(got, exp) {
		return "backward-walk", fmt.Sprintf("list %s: reversed Back()..Previous() yields %v, spec %v", L, got, exp)
	}
	if e != fend {
		return "backward-walk", fmt.Sprintf("list %s: backward walk ends at %s, forward walk at %s", L, w.nameOf(e), w.nameOf(fend))
	}
	w.end[L] = fend
	if n := l.Len(); n != len(ids) {
		return "len", fmt.Sprintf("list %s: Len()=%d, spec %d", L, n, len(ids))
	}
	// both walks are well-formed, so the unbounded library traversals below terminate
	if got := []int(l.Slice()); !eqInts(got, expv) {
		return "slice", fmt.Sprintf("list %s: Slice()=%v, spec %v", L, got, expv)
	}
	var itv []int
	it := l.Iterator()
	for i := 0; i < bound && it.Next(bg); i++ {
		itv = append(itv, it.Value())
	}
	if !eqInts(itv, expv) {
		return "iterator", fmt.Sprintf("list %s: Iterator() yields %v, spec %v", L, itv, expv)
	}
	itv = nil
	it = l.Reverse()
	for i := 0; i < bound && it.Next(bg); i++ {
		itv = append(itv, it.Value())
	}
	if !eqInts(rev(itv), expv) {
		return "reverse-iterator", fmt.Sprintf("list %s: Reverse() yields %v, spec reversed %v", L, itv, expv)
	}
	// Copy: same values, distinct elements, source untouched
	c := l.Copy()
	var cv []int
	e = c.Front()
	for i := 0; i < bound && e.Ok(); i++ {
		if _, known := w.name[e]; known {
			return "copy", fmt.Sprintf("list %s: Copy() shares element %s with its source", L, w.nameOf(e))
		}
		cv = append(cv, e.Value())
		e = e.Next()
	}
	if !eqInts(cv, expv) || c.Len() != len(ids) {
		return "copy", fmt.Sprintf("list %s: Copy() holds %v (Len %d), spec %v", L, cv, c.Len(), expv)
	}
	return "", ""
}

// drain checks the destructive iterators on copies of the list (end of behaviour).
func (w *lworld) drain(L string, ids []int, val []int) (pred, what string) {
	l := w.l[L]
	expv := make([]int, len(ids))
	for i, k := range ids {
		expv[i] = val[k-1]
	}
	bound := len(ids) + 3
	c := l.Copy()
	var got []int
	it := c.PopIterator()
	for i := 0; i < bound && it.Next(bg); i++ {
		got = append(got, it.Value())
	}
	if !eqInts(got, expv) || c.Len() != 0 {
		return "pop-iterator", fmt.Sprintf("list %s: PopIterator() on a copy yields %v and leaves Len %d, spec %v / 0", L, got, c.Len(), expv)
	}
	c = l.Copy()
	got = nil
	it = c.PopReverse()
	for i := 0; i < bound && it.Next(bg); i++ {
		got = append(got, it.Value())
	}
	if !eqInts(rev(got), expv) || c.Len() != 0 {
		return "pop-reverse", fmt.Sprintf("list %s: PopReverse() on a copy yields %v and leaves Len %d, spec reversed %v / 0", L, got, c.Len(), expv)
	}
	if l.Len() != len(ids) {
		return "copy", fmt.Sprintf("list %s: draining a copy changed the source Len to %d", L, l.Len())
	}
	return "", ""
}

func contains(ids []int, k int) bool {
	for _, x := range ids {
		if x == k {
			return true
		}
	}
	return false
}

// observeHandles: In(list), Ok(), Value() of every element ever created, Ok() of roots and nil.
func (w *lworld) observeHandles(la, lb []int, val []int, ok []bool) (pred, what string) {
	for k := 1; k < len(w.el); k++ {
		e := w.el[k]
		if e == nil {
			return "handle", fmt.Sprintf("element e%d was never obtained from the list", k)
		}
		if got, exp := e.In(w.l["A"]), contains(la, k); got != exp {
			return "in", fmt.Sprintf("e%d.In(A)=%v, spec %v", k, got, exp)
		}
		if got, exp := e.In(w.l["B"]), contains(lb, k); got != exp {
			return "in", fmt.Sprintf("e%d.In(B)=%v, spec %v", k, got, exp)
		}
		if got := e.Ok(); got != ok[k-1] {
			return "ok", fmt.Sprintf("e%d.Ok()=%v, spec %v", k, got, ok[k-1])
		}
		if got := e.Value(); got != val[k-1] {
			return "value", fmt.Sprintf("e%d.Value()=%d, spec %d", k, got, val[k-1])
		}
	}
	// the sentinel handle stays the list's sentinel (a client may hold it and Append to it)
	for _, L := range []string{"A", "B"} {
		r, known := w.root[L]
		if !known {
			if w.end[L] == nil {
				continue
			}
			r = w.end[L]
			w.root[L] = r
		}
		if r.Ok() {
			return "ok", "root of " + L + " reports Ok()"
		}
		if w.end[L] != r {
			return "root", fmt.Sprintf("the walks of list %s end at %s, no longer at the root handle obtained earlier", L, w.nameOf(w.end[L]))
		}
	}
	var nilE *elem
	if nilE.Ok() {
		return "ok", "nil element reports Ok()"
	}
	return "", ""
}

func (w *lworld) observeAll(op string, k int, st *lstep) *mismatch {
	for _, L := range []string{"A", "B"} {
		ids := st.LA
		if L == "B" {
			ids = st.LB
		}
		if p, what := w.observeList(L, ids, st.Val); p != "" {
			return &mismatch{k, "list/" + op + "/" + p, what}
		}
	}
	if p, what := w.observeHandles(st.LA, st.LB, st.Val, st.Ok); p != "" {
		return &mismatch{k, "list/" + op + "/" + p, what}
	}
	return nil
}

func (w *lworld) checkRet(op string, k int, exp string, gotB *bool, gotE *elem, hasE bool) *mismatch {
	switch exp {
	case "-":
		return nil
	case "true", "false":
		if gotB == nil || *gotB != (exp == "true") {
			return &mismatch{k, "list/" + op + "/return", fmt.Sprintf("%s returned %v, spec %s", op, deref(gotB), exp)}
		}
	case "none":
		if !hasE || gotE.Ok() {
			return &mismatch{k, "list/" + op + "/return", fmt.Sprintf("%s returned %s, spec: an element with Ok()=false", op, w.nameOf(gotE))}
		}
	case "none-detached":
		if !hasE || gotE == nil || gotE.Ok() || gotE.In(w.l["A"]) || gotE.In(w.l["B"]) {
			return &mismatch{k, "list/" + op + "/return", fmt.Sprintf("%s returned %s, spec: a detached non-nil element with Ok()=false", op, w.nameOf(gotE))}
		}
	default:
		if !hasE || gotE != w.handle(exp) {
			return &mismatch{k, "list/" + op + "/return", fmt.Sprintf("%s returned %s, spec %s", op, w.nameOf(gotE), exp)}
		}
	}
	return nil
}

func deref(b *bool) any {
	if b == nil {
		return "nothing"
	}
	return *b
}

// lastN returns the last n elements of list L by a bounded backward walk.
func (w *lworld) lastN(L string, n int) []*elem {
	out := make([]*elem, n)
	e := w.l[L].Back()
	for i := n - 1; i >= 0; i-- {
		out[i] = e
		if e != nil {
			e = e.Previous()
		}
	}
	return out
}

func (w *lworld) apply(k int, st *lstep) *mismatch {
	var rb *bool
	var re *elem
	hasE := false
	setB := func(b bool) { rb = &b }
	setE := func(e *elem) { re, hasE = e, true }
	switch st.Op {
	case "PushBack":
		l := w.l[st.A[0]]
		l.PushBack(st.Iv[0])
		w.add(l.Back())
	case "PushFront":
		l := w.l[st.A[0]]
		l.PushFront(st.Iv[0])
		w.add(l.Front())
	case "AppendMany":
		w.l[st.A[0]].Append(st.Iv...)
		for _, e := range w.lastN(st.A[0], len(st.Iv)) {
			w.add(e)
		}
	case "NewElement":
		e := dt.NewElement(st.Iv[0])
		w.add(e)
		setE(e)
	case "PopFront":
		setE(w.l[st.A[0]].PopFront())
	case "PopBack":
		setE(w.l[st.A[0]].PopBack())
	case "Extend":
		w.l[st.A[0]].Extend(w.l[st.A[1]])
	case "ExtendCopy":
		c := w.l[st.A[1]].Copy()
		w.l[st.A[0]].Extend(c)
		if c.Len() != 0 {
			return &mismatch{k, "list/Extend/len", fmt.Sprintf("Extend left %d elements in its argument", c.Len())}
		}
		for _, e := range w.lastN(st.A[0], len(st.Iv)) {
			w.add(e)
		}
	case "JSONRound":
		data, err := w.l[st.A[1]].MarshalJSON()
		if err != nil {
			return &mismatch{k, "list/MarshalJSON/error", err.Error()}
		}
		var dec []int
		if err := json.Unmarshal(data, &dec); err != nil || !eqInts(dec, st.Iv) {
			return &mismatch{k, "list/MarshalJSON/content", fmt.Sprintf("MarshalJSON gives %s, spec %v", data, st.Iv)}
		}
		if err := w.l[st.A[0]].UnmarshalJSON(data); err != nil {
			return &mismatch{k, "list/UnmarshalJSON/error", err.Error()}
		}
		for _, e := range w.lastN(st.A[0], len(st.Iv)) {
			w.add(e)
		}
	case "SortQuick":
		w.l[st.A[0]].SortQuick(ltOf(st.A[1]))
	case "SortMerge":
		w.l[st.A[0]].SortMerge(ltOf(st.A[1]))
	case "IsSorted":
		setB(w.l[st.A[0]].IsSorted(ltOf(st.A[1])))
	case "In":
		// documented: "Returns false when the element is nil"
		setB(w.handle(st.A[0]).In(w.l[st.A[1]]))
	case "Append":
		setE(w.handle(st.A[0]).Append(w.handle(st.A[1])))
	case "Remove":
		setB(w.handle(st.A[0]).Remove())
	case "Drop":
		w.handle(st.A[0]).Drop()
	case "Swap":
		setB(w.handle(st.A[0]).Swap(w.handle(st.A[1])))
	case "Set":
		setB(w.handle(st.A[0]).Set(st.Iv[0]))
	case "SetJSON":
		if err := w.handle(st.A[0]).UnmarshalJSON([]byte(strconv.Itoa(st.Iv[0]))); err != nil {
			return &mismatch{k, "list/SetJSON/error", err.Error()}
		}
	default:
		panic("harness: unknown list op " + st.Op)
	}
	// elements the spec says exist must have been obtained
	if len(w.el)-1 != len(st.Val) {
		panic(fmt.Sprintf("harness: %d elements known, spec has %d", len(w.el)-1, len(st.Val)))
	}
	if mm := w.checkRet(st.Op, k, st.Ret, rb, re, hasE); mm != nil {
		return mm
	}
	return w.observeAll(st.Op, k, st)
}

func replayList(n int, raw json.RawMessage) result {
	var beh []lstep
	if err := json.Unmarshal(raw, &beh); err != nil {
		panic(err)
	}
	w := newLWorld()
	for k := range beh {
		st := &beh[k]
		if mm := guard("list", st.Op, k, func() *mismatch { return w.apply(k, st) }); mm != nil {
			mm.what = fmt.Sprintf("step %d %s%v %v [%s]: %s", k, st.Op, st.A, st.Iv, st.Cs, mm.what)
			return mm.res(n)
		}
	}
	if len(beh) > 0 {
		last := &beh[len(beh)-1]
		mm := guard("list", "end", len(beh), func() *mismatch {
			for _, L := range []string{"A", "B"} {
				ids := last.LA
				if L == "B" {
					ids = last.LB
				}
				if p, what := w.drain(L, ids, last.Val); p != "" {
					return &mismatch{len(beh), "list/" + p + "/content", what}
				}
			}
			return nil
		})
		if mm != nil {
			return mm.res(n)
		}
	}
	return okRes(n, len(beh))
}
