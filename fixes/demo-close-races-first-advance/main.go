// Minimal demonstration (property C04): Iterator.Close concurrent with the FIRST advance panics.
//
//	cd /verif/fixes/demo-close-races-first-advance
//	GOFLAGS=-mod=mod GOPROXY=off GOSUMDB=off go run . plain   # ReadOne panics in the consumer
//	GOFLAGS=-mod=mod GOPROXY=off GOSUMDB=off go run . map     # Split's reader goroutine panics: the process dies
//
// ReadOne (iterator.go:231-241) checks closer.state, then runs the operation built by
// Producer.WithCancel (producer.go:367-377), whose sync.Once creates the iterator's context.
// Close (iterator.go:169-171) sets closer.state and calls the cancel function, which consumes the
// same Once with an empty function.  If Close lands between the two, the advance finds
// wctx == nil and Invariant.IsFalse panics: "must start the operation before calling cancel".
// Map / ParallelBuffer close their INPUT iterator from the output's Close hook, so there the
// panicking advance is the one made by Split's background reader - an unrecovered panic in a
// library goroutine.
package main

import (
	"context"
	"fmt"
	"os"
	"sync"
	"sync/atomic"

	"github.com/tychoish/fun"
)

var sink atomic.Int64

func main() {
	ctx := context.Background()
	mode := "plain"
	if len(os.Args) > 1 {
		mode = os.Args[1]
	}
	panics := 0
	var first any
	const reps = 1000000
	for i := 0; i < reps; i++ {
		it := fun.SliceIterator([]int{1, 2, 3})
		if mode == "map" {
			it = fun.Map(it, func(_ context.Context, v int) (int, error) { return v, nil })
		}
		var wg sync.WaitGroup
		wg.Add(2)
		go func() {
			defer wg.Done()
			defer func() {
				if r := recover(); r != nil {
					panics++
					if first == nil {
						first = r
					}
				}
			}()
			for {
				if _, err := it.ReadOne(ctx); err != nil {
					return
				}
			}
		}()
		go func() {
			defer wg.Done()
			for y := 0; y < (i*37)%2048; y++ { // vary where Close lands; no clock involved
				sink.Add(1)
			}
			_ = it.Close()
		}()
		wg.Wait()
	}
	fmt.Printf("%s: %d of %d advances panicked; first: %v\n", mode, panics, reps, first)
}
