// adt.MakeBufferPool(min, max): "New slices are allocated with the specified minimum capacity ... Slices that are
// larger than the specified maximum do not reenter the pool."  The cleanup hook returns nil for an oversized slice
// (adt/pool.go:138-143) and Pool.Put puts that nil slice into the pool: the next Get returns capacity 0.
// go run ./adt_bufferpool_nil   - exit 1 when the divergence is present
package main

import (
	"fmt"
	"os"
	"runtime"

	"github.com/tychoish/fun/adt"
)

func main() {
	runtime.GOMAXPROCS(1)
	p := adt.MakeBufferPool(16, 64)
	b := p.Get()
	fmt.Println("first Get: cap", cap(b))
	b = append(b, make([]byte, 100)...)
	p.Put(b)
	c := p.Get()
	fmt.Printf("Get after Put of a %d-byte slice: cap %d, nil %v\n", len(b), cap(c), c == nil)
	if cap(c) < 16 {
		os.Exit(1)
	}
}
