// Minimal demonstration for C03 (keys wgerr/<construct>/excluded-error-reported,
// wgerr/classify/excluded-error-reported): WorkerGroupConf.ExcludedErrors ("a list of [errors] that
// should not be included in the collected errors of the output") is set by
// WorkerGroupConfAddExcludeErrors but never read: CanContinueOnError hands an excluded error to the
// ErrorHandler like any other.
//
//	go run ./excluded_errors   (from /verif/fixes/demos)
//
// Pinned tree: every line prints reported=true.  With fixes/wgconf-excluded-errors.diff: false.
package main

import (
	"context"
	"errors"
	"fmt"

	"github.com/tychoish/fun"
	"github.com/tychoish/fun/itertool"
)

var notInteresting = errors.New("not interesting")

func main() {
	ctx := context.Background()
	opts := []fun.OptionProvider[*fun.WorkerGroupConf]{
		fun.WorkerGroupConfContinueOnError(),
		fun.WorkerGroupConfAddExcludeErrors(notInteresting),
	}
	fail2 := func(v int) error {
		if v == 2 {
			return notInteresting
		}
		return nil
	}

	var handled []error
	conf := fun.WorkerGroupConf{ContinueOnError: true, ExcludedErrors: []error{notInteresting},
		ErrorHandler: func(err error) { handled = append(handled, err) }}
	cont := conf.CanContinueOnError(notInteresting)
	fmt.Printf("%-28s reported=%v continue=%v\n", "CanContinueOnError", len(handled) > 0, cont)

	err := itertool.ParallelForEach(ctx, fun.SliceIterator([]int{1, 2, 3}), func(_ context.Context, v int) error { return fail2(v) }, opts...)
	fmt.Printf("%-28s reported=%v result=%v\n", "itertool.ParallelForEach", errors.Is(err, notInteresting), err)

	out := fun.Map(fun.SliceIterator([]int{1, 2, 3}), func(_ context.Context, v int) (int, error) { return v, fail2(v) }, opts...)
	n := 0
	for {
		if _, err := out.ReadOne(ctx); err != nil {
			break
		}
		n++
	}
	err = out.Close()
	fmt.Printf("%-28s reported=%v result=%v (outputs: %d)\n", "fun.Map", errors.Is(err, notInteresting), err, n)
}
