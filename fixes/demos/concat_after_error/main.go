// Minimal demonstration for C02 (keys iter/join/..., iter/chain/... continues-after-operand-error):
// the sequence is not truncated at the first element for which a user function returns an error -
// Join and Chain go on with the next iterator, and Join even loses the error.
// go run ./concat_after_error   (from /verif/fixes/demos)
package main

import (
	"context"
	"errors"
	"fmt"

	"github.com/tychoish/fun"
	"github.com/tychoish/fun/itertool"
)

var boom = errors.New("boom")

func failing() *fun.Iterator[int] {
	n := 0
	return fun.SliceIterator([]int{1, 2, 3}).Transform(func(_ context.Context, v int) (int, error) {
		n++
		if n == 2 {
			return 0, boom
		}
		return v * 10, nil
	})
}

func main() {
	ctx := context.Background()
	j := failing().Join(fun.SliceIterator([]int{7, 8}))
	out, err := j.Slice(ctx)
	fmt.Printf("Join : %v  Close/Slice error: %v   (pure functions, truncated at the error: [10])\n", out, err)
	c := itertool.Chain(failing(), fun.SliceIterator([]int{7, 8}))
	out, err = c.Slice(ctx)
	fmt.Printf("Chain: %v  Close/Slice error: %v   (pure functions, truncated at the error: [10])\n", out, err)
}
