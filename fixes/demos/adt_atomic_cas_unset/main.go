// adt.Atomic that was never set: Get() says 0, CompareAndSwap(a, 0, n) says "not 0"; adt.Reset never returns.
// (adt/atomics.go:141 hands `old` to atomic.Value.CompareAndSwap, which holds nil until the first Store;
// adt/atomics.go:158-166 Reset loops until CompareAndSwap(a, a.Load(), 0) succeeds.)
// go run ./adt_atomic_cas_unset   (from /verif/fixes/demos) - exit 1 when the divergence is present
package main

import (
	"fmt"
	"os"

	"github.com/tychoish/fun/adt"
)

// counting wraps the real Atomic so that the number of iterations of Reset's loop is visible (no clock needed: in a
// single goroutine an iteration that changes nothing is followed by an identical one).
type counting struct {
	in    *adt.Atomic[int]
	loads int
}

type spins struct{}

func (c *counting) Load() int {
	if c.loads++; c.loads > 10000 {
		panic(spins{})
	}
	return c.in.Load()
}
func (c *counting) Store(v int)                  { c.in.Store(v) }
func (c *counting) Swap(v int) int               { return c.in.Swap(v) }
func (c *counting) CompareAndSwap(a, b int) bool { return adt.CompareAndSwap[int](c.in, a, b) }

func main() {
	bad := false
	a := &adt.Atomic[int]{}
	got, ok := a.Get(), adt.CompareAndSwap[int](a, 0, 5)
	fmt.Printf("zero-value Atomic[int]: Get() = %d, CompareAndSwap(a, 0, 5) = %v, Get() = %d\n", got, ok, a.Get())
	bad = bad || !ok
	func() {
		defer func() {
			if _, spin := recover().(spins); spin {
				fmt.Println("adt.Reset on a zero-value Atomic[int]: still looping after 10000 iterations (Load()=0, CompareAndSwap(0,0)=false)")
				bad = true
			}
		}()
		fmt.Println("adt.Reset returned", adt.Reset[int, *counting](&counting{in: &adt.Atomic[int]{}}))
	}()
	if bad {
		os.Exit(1)
	}
}
