// adt.Map: "Default ... No configuration or construction is necessary"; Ensure "adds a key to the map if it does not
// already exist, using the default value".  For a pointer-valued map with the zero-configuration Default pool,
// Ensure -> Default.Make -> runtime.SetFinalizer(nil pointer) is a FATAL error (not a panic: the process ends).
// go run ./adt_map_ensure_fatal   - the divergence shows as "fatal error: runtime.SetFinalizer: pointer not in allocated block"
package main

import (
	"fmt"

	"github.com/tychoish/fun/adt"
)

type conf struct{ n int }

func main() {
	defer func() { fmt.Println("recovered:", recover()) }() // never reached on a fatal error
	m := &adt.Map[string, *conf]{}
	m.Ensure("a")
	v, ok := m.Load("a")
	fmt.Println("Ensure(a) done; Load(a) =", v, ok)
}
