// Documented-vs-actual divergences of srv.Wait and Service.Worker found while building the extra check X03
// (spec/srv/WrapAbs.tla).
//
//	W1 implementations.go:114-117  srv.Wait: "The Service's wait function returns an error that aggregates all errors
//	      (e.g. panics) encountered by the constituent wait functions."  The goroutine of an operation defers
//	      erc.Recover(ec) BEFORE wg.Done() (implementations.go:138-139), so on a panic wg.Done() runs first: the
//	      service's Run / Cleanup (wg.Wait(); ec.Resolve()) can finish before the panic reaches the collector, and
//	      Wait() reports nil.                                        (fixes/srv-wait-recover-before-done.diff)
//	W2 service.go:233-241  Service.Worker: "Worker runs the service, starting it if needed and then waiting for the
//	      service to return."  A Worker called while another caller's Start is still inside the service's sync.Once
//	      gets ErrServiceAlreadyStarted from Start (ignored) and ErrServiceNotStarted from waitFor (isStarted is set
//	      at the end of the Once, service.go:123): it returns that error at once although the service is running.
//	      Shown here by racing two Workers on fresh services until it happens (deterministic in the harness
//	      through the yield point srv.Service.Start.launched).
//
// go run ./srv_wrapper_divergences
package main

import (
	"context"
	"errors"
	"fmt"
	"sync"

	"github.com/tychoish/fun"
	"github.com/tychoish/fun/ers"
	"github.com/tychoish/fun/pubsub"
	"github.com/tychoish/fun/srv"
)

func main() {
	// ---- W1
	lost, trials := 0, 2000
	for i := 0; i < trials; i++ {
		q := pubsub.NewUnlimitedQueue[fun.Operation]()
		s := srv.Wait(q.Distributor().Iterator())
		ctx, cancel := context.WithCancel(context.Background())
		if err := s.Start(ctx); err != nil {
			panic(err)
		}
		entered := make(chan struct{})
		_ = q.Add(func(ctx context.Context) { close(entered); <-ctx.Done(); panic("operation panicked") })
		<-entered
		cancel() // or s.Close()
		if err := s.Wait(); !errors.Is(err, ers.ErrRecoveredPanic) {
			lost++
		}
	}
	fmt.Printf("W1 the only operation panics when the service is stopped: Wait() reports the panic, documented: always     actual: lost in %d of %d runs\n", lost, trials)

	// ---- W2
	early, trials2 := 0, 20000
	for i := 0; i < trials2 && early == 0; i++ {
		ctx, cancel := context.WithCancel(context.Background())
		s := &srv.Service{Run: func(ctx context.Context) error { <-ctx.Done(); return nil }}
		var wg sync.WaitGroup
		errs := make([]error, 2)
		for k := 0; k < 2; k++ {
			wg.Add(1)
			go func(k int) { defer wg.Done(); errs[k] = s.Worker()(ctx) }(k)
		}
		// a Worker that behaves as documented is still waiting here; one that returned already did not wait
		done := make(chan struct{})
		go func() { wg.Wait(); close(done) }()
		for y := 0; y < 50; y++ {
			select {
			case <-done:
			default:
			}
		}
		cancel()
		<-done
		for _, e := range errs {
			if errors.Is(e, srv.ErrServiceNotStarted) {
				early++
				fmt.Printf("W2 two Workers on one fresh service (trial %d): one returned %q while the service was running; documented: both wait\n", i, e)
			}
		}
	}
	if early == 0 {
		fmt.Printf("W2 not observed in %d racing trials (the harness shows it deterministically with the yield point)\n", trials2)
	}
}
