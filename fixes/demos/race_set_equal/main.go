// Minimal demonstration for C13 (keys race/set/dt.Map.ProducerKeys.func1+dt.Map.SetDefault, ...),
// found by the check once Set.Producer was repaired: on an unordered synchronized Set, Equal walks
// its own members with the map's Keys() iterator, whose goroutine (dt/map.go:216-230) ranges over
// the map WITHOUT the lock; after an early `return false` (dt/set.go:232-234) that goroutine goes
// on reading the map while the lock is free again - the next Add / Delete / Sort races with it.
// No concurrency in the client is needed.  Also: Equal reads other.list without other's lock
// (dt/set.go:212).  Repair: fixes/set-producer-holds-lock.diff.
//
//	cd /verif/fixes/demos && go run -race ./race_set_equal
package main

import "github.com/tychoish/fun/dt"

func main() {
	for round := 0; round < 200; round++ {
		s, o := &dt.Set[int]{}, &dt.Set[int]{}
		s.Synchronize()
		o.Synchronize()
		for i := 0; i < 12; i++ {
			s.Add(3 * i)
			o.Add(3*i + 1) // as many members, but different ones
		}
		_ = s.Equal(o) // false at the first member; the map iterator's goroutine is left behind
		s.Add(1000)    // writes the map under the lock, the goroutine reads it without
	}
}
