// Documented-vs-actual divergences of fun.ChanOp / pubsub.Distributor found while building the extra check X01
// (spec/chan).  Each block prints what the documentation says and what the code does.
//
//	D1 chan.go:331-339  Write: "io.EOF if the channel is closed (or nil)" - a Blocking send on a nil channel blocks
//	                    until the context ends, a NonBlocking one reports "skipped"      (fixes/chan-write-nil-eof.diff)
//	D2 chan.go:56-65    DefaultChan(nonNil) returns a ChanOp without a mode: Write / Read report io.EOF without
//	                    touching the channel, Ok() panics                                (fixes/chan-defaultchan-mode.diff)
//	D3 buffer.go:37-44  WithInputFilter = push.Filter(f).WithoutErrors(ErrCurrentOpSkip); the NonBlocking channel's
//	                    "full, skipped" is the same sentinel: Send reports nil, nothing was sent
//	                                                                     (fixes/distributor-input-filter-keeps-skip.diff)
//	D4 broker.go:117-128 NewLIFOBroker "distributes messages in a LIFO order" - it is built on
//	                    Deque.DistributorNonBlocking (push back, pop front): FIFO          (fixes/broker-lifo-order.diff)
//	D5 iterator.go:198-207 Next: "... or the context passed to Next has been canceled" - an Iterator built from a
//	                    Producer runs it with the context of the FIRST call (producer.go:363-382): cancelling the
//	                    context of a later, blocked Next does not release it
//
// go run ./chan_doc_divergences
package main

import (
	"context"
	"fmt"
	"time"

	"github.com/tychoish/fun"
	"github.com/tychoish/fun/pubsub"
)

func main() {
	bg := context.Background()

	// D1
	var nilch chan string
	tctx, tc := context.WithTimeout(bg, 50*time.Millisecond)
	fmt.Println("D1 Blocking(nil).Send().Write:    doc io.EOF; got", fun.Blocking(nilch).Send().Write(tctx, "a"))
	tc()
	fmt.Println("D1 NonBlocking(nil).Send().Write: doc io.EOF; got", fun.NonBlocking(nilch).Send().Write(bg, "a"))

	// D2
	ch := make(chan string, 1)
	op := fun.DefaultChan(ch)
	fmt.Println("D2 DefaultChan(open, cap 1).Send().Write: got", op.Send().Write(bg, "a"), "len", op.Len(),
		"| DefaultChan(nil, 1).Send().Write: got", fun.DefaultChan[string](nil, 1).Send().Write(bg, "a"))
	_, err := op.Receive().Read(bg)
	fmt.Println("D2 DefaultChan(open).Receive().Read: got", err)
	func() {
		defer func() { fmt.Println("D2 DefaultChan(open).Receive().Ok(): panic:", recover()) }()
		op.Receive().Ok()
	}()

	// D3
	full := make(chan string, 1)
	full <- "x"
	d := pubsub.DistributorChanOp(fun.NonBlocking(full))
	fmt.Println("D3 NonBlocking distributor, channel full: Send =", d.Send(bg, "a"),
		"| with an input filter that accepts everything: Send =", d.WithInputFilter(func(string) bool { return true }).Send(bg, "a"),
		"len", d.Len())

	// D4
	ctx, cancel := context.WithCancel(bg)
	b := pubsub.NewLIFOBroker[int](ctx, pubsub.BrokerOptions{}, 10)
	sub := b.Subscribe(ctx)
	for i := 1; i <= 3; i++ {
		b.Publish(ctx, i)
	}
	fmt.Print("D4 NewLIFOBroker, published 1 2 3, delivered: ")
	for i := 0; i < 3; i++ {
		fmt.Print(<-sub, " ")
	}
	fmt.Println()
	cancel()

	// D5
	ich := make(chan string, 1)
	it := fun.Blocking(ich).Iterator()
	ich <- "a"
	c1, cancel1 := context.WithCancel(bg)
	it.Next(c1)
	c2, cancel2 := context.WithCancel(bg)
	done := make(chan bool, 1)
	go func() { done <- it.Next(c2) }()
	time.Sleep(20 * time.Millisecond)
	cancel2()
	select {
	case r := <-done:
		fmt.Println("D5 second Next returned after its own context was cancelled:", r)
	case <-time.After(200 * time.Millisecond):
		fmt.Println("D5 second Next still blocked 200ms after ITS context was cancelled; cancelling the FIRST call's context ...")
		cancel1()
		fmt.Println("D5 ... releases it:", <-done)
	}
}
