// Minimal demonstration for C08 (key broker/exactly-once/unsubscribe-window): a message whose Publish
// returned before Unsubscribe(s) was called is not delivered to s when the dispatch worker gets to it
// after the event loop processed the unsubscribe - although s keeps receiving.  Queue-backed broker,
// one worker: the worker is held up by the first message (nobody receives yet), the second message
// waits in the queue, s2 unsubscribes, then both subscribers receive for ever.
// go run ./broker_unsubscribe_window   (from /verif/fixes/demos)
package main

import (
	"context"
	"fmt"
	"sync"
	"time"

	"github.com/tychoish/fun/pubsub"
)

func main() {
	ctx := context.Background()
	b := pubsub.NewQueueBroker[string](ctx, pubsub.NewUnlimitedQueue[string](), pubsub.BrokerOptions{})
	s1, s2 := b.Subscribe(ctx), b.Subscribe(ctx)
	b.Publish(ctx, "m1") // both calls return: accepted by the event loop
	b.Publish(ctx, "m2")
	time.Sleep(100 * time.Millisecond) // the worker is blocked sending m1; m2 sits in the queue
	b.Unsubscribe(ctx, s2)             // called after Publish(m2) returned
	var mu sync.Mutex
	got := map[string][]string{}
	for name, ch := range map[string]chan string{"s1": s1, "s2": s2} {
		go func(name string, ch chan string) {
			for v := range ch {
				mu.Lock()
				got[name] = append(got[name], v)
				mu.Unlock()
			}
		}(name, ch)
	}
	time.Sleep(300 * time.Millisecond)
	mu.Lock()
	fmt.Printf("s1 received %v, s2 received %v (both were subscribed before and unsubscribed after both publishes: expected [m1 m2] twice)\n", got["s1"], got["s2"])
	mu.Unlock()
}
