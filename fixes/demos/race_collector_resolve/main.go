// Observation made while building C13 (explored, NOT judged by the check: the racing read is in a
// method of the returned *ers.Stack, not of the Collector): Collector.Resolve returns &ec.stack
// (erc/errors.go:92), the very head node that a later Add rewrites in place under ec.mu
// (ers/merged.go Push), so using the returned error (Error, errors.Is, Unwind) while other
// goroutines still Add is a data race.  Proposed repair: fixes/collector-resolve-snapshot.diff.
//
//	cd /verif/fixes/demos && go run -race ./race_collector_resolve
package main

import (
	"errors"
	"sync"

	"github.com/tychoish/fun/erc"
)

func main() {
	ec := &erc.Collector{}
	ec.Add(errors.New("first"))
	var wg sync.WaitGroup
	wg.Add(2)
	go func() {
		defer wg.Done()
		for i := 0; i < 1000; i++ {
			ec.Add(errors.New("more"))
		}
	}()
	go func() {
		defer wg.Done()
		for i := 0; i < 1000; i++ {
			if err := ec.Resolve(); err != nil {
				_ = err.Error()
			}
		}
	}()
	wg.Wait()
}
