// Minimal demonstration for C09 (key broker/shutdown/stop-blocked): Broker.Wait holds b.mu while it is
// blocked, so a Stop issued from another goroutine while a Wait is in progress blocks on the mutex for
// ever; the broker is never cancelled and neither call returns.
// go run ./broker_stop_blocked_by_wait   (from /verif/fixes/demos; repaired by fixes/broker-stop-blocked-by-wait.diff)
package main

import (
	"context"
	"fmt"
	"sync/atomic"
	"time"

	"github.com/tychoish/fun/pubsub"
)

func main() {
	ctx := context.Background()
	b := pubsub.NewBroker[string](ctx, pubsub.BrokerOptions{})
	var waited, stopped atomic.Bool
	go func() { b.Wait(ctx); waited.Store(true) }()
	time.Sleep(100 * time.Millisecond) // Wait is parked in wg.Wait, holding b.mu
	go func() { b.Stop(); stopped.Store(true) }()
	time.Sleep(500 * time.Millisecond)
	fmt.Printf("after Wait(); Stop() from another goroutine: Stop returned=%v Wait returned=%v (expected true true)\n",
		stopped.Load(), waited.Load())
}
