// Documented-vs-actual divergences of package adt that X02 does NOT judge (its value domain is int / pointers to
// cells): interface-typed T and nil interface values.
//  1. Atomic.Swap: "Unlike sync.Atomic.Swap() if new is nil, adt.Atomic.Swap() does NOT panic" - it panics
//     (the type comment says interface types are not compatible with adt.Atomic; the method comment contradicts it).
//  2. Map.Load: "the second value indicates if the key was present in the map" - false for a present key whose value
//     is a nil interface (safeCast, adt/map.go:62-67), while Check says true; Get and Range panic on such a value.
//  3. Pool.Put: "Put *always* clears the object's finalizer" vs Pool.Make: "Finalizer hooks are not automatically
//     cleared by the Put() operation" - the code does what Make says; Make; Put; Make on the same object is a fatal
//     error ("finalizer already set").
//
// go run ./adt_doc_only
package main

import (
	"fmt"

	"github.com/tychoish/fun/adt"
)

func try(name string, f func()) {
	defer func() {
		if r := recover(); r != nil {
			fmt.Printf("%s: PANIC %v\n", name, r)
		}
	}()
	f()
}

func main() {
	try("Atomic[error].Swap(nil)", func() { a := &adt.Atomic[error]{}; fmt.Println("returned", a.Swap(nil)) })
	m := &adt.Map[string, error]{}
	m.Store("a", nil)
	v, ok := m.Load("a")
	fmt.Printf("Map[string,error]: Store(a, nil); Load(a) = %v, %v; Check(a) = %v; Len() = %d\n", v, ok, m.Check("a"), m.Len())
	try("Map.Get(a)", func() { fmt.Println(m.Get("a")) })
	try("Map.Range", func() { m.Range(func(string, error) bool { return true }) })
}
