// Minimal demonstration for C13 (keys race/pubsub.queueLimitTracker.add+pubsub.queueLimitTracker.len,
// race/pubsub.queueLimitTracker.len+pubsub.queueLimitTracker.remove): Queue.Distributor() wires the
// distributor's Len to the limit tracker's len method value (pubsub/queue.go:359), which reads the
// length without q.mu, while Add / Remove / Wait write it under q.mu.  The same happens inside every
// NewQueueBroker: Stats (dispatcher goroutine -> dist.Len) against the worker's dist.Receive.
//
//	cd /verif/fixes/demos && go run -race ./race_queue_distributor_len      -> WARNING: DATA RACE, exit 66
package main

import (
	"sync"

	"github.com/tychoish/fun/pubsub"
)

func main() {
	q := pubsub.NewUnlimitedQueue[int]()
	d := q.Distributor()
	var wg sync.WaitGroup
	wg.Add(2)
	go func() {
		defer wg.Done()
		for i := 0; i < 1000; i++ {
			_ = q.Add(i)
		}
	}()
	go func() {
		defer wg.Done()
		for i := 0; i < 1000; i++ {
			_ = d.Len()
		}
	}()
	wg.Wait()
}
