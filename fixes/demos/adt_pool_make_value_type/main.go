// adt.Pool.Make on a non-pointer T (adt/pool.go:100-102) attaches the finalizer to a private copy `&o`, which is
// garbage as soon as Make returns: at the next collection the value re-enters the pool although the caller still
// uses it.  adt.MakeBytesBufferPool builds its buffers on `_buf.Make()` (pool.go:115): after one GC cycle two live
// *bytes.Buffer share one backing array.
// go run ./adt_pool_make_value_type   - exit 1 when the aliasing is present
package main

import (
	"fmt"
	"os"
	"runtime"

	"github.com/tychoish/fun/adt"
)

// collect = a full collection including its finalizers (two fenced cycles; finalizers run on one goroutine)
func collect() {
	for i := 0; i < 2; i++ {
		done := make(chan struct{})
		func() {
			s := new([64]byte)
			runtime.SetFinalizer(s, func(*[64]byte) { close(done) })
		}()
		runtime.GC()
		<-done
	}
}

func main() {
	runtime.GOMAXPROCS(1)
	p := adt.MakeBytesBufferPool(16)
	b1 := p.Get()
	b1.WriteString("AAAA")
	collect()
	b2 := p.Get()
	b2.WriteString("BB")
	fmt.Printf("b1 = %q, b2 = %q (two different live buffers: %v)\n", b1.String(), b2.String(), b1 != b2)
	if b1.String() != "AAAA" {
		fmt.Println("writing to b2 changed b1: both buffers use the same backing array")
		os.Exit(1)
	}
}
