// Minimal demonstration for C12 (key collector/iterator/inconsistent-with-adds):
// an erc.Collector iterator repeats an error and misses another when Add is called
// between two reads, although its documentation says it "will not observe new errors
// added to the collector".   go run ./collector_iterator   (from /verif/fixes/demos)
package main

import (
	"context"
	"errors"
	"fmt"

	"github.com/tychoish/fun/erc"
)

func main() {
	ctx := context.Background()
	c := &erc.Collector{}
	a, b := errors.New("a"), errors.New("b")
	c.Add(a)
	it := c.Iterator()
	first, _ := it.ReadOne(ctx)
	c.Add(b) // any goroutine, any time between the two reads
	second, err := it.ReadOne(ctx)
	fmt.Printf("first=%v second=%v err=%v   (a was added once; expected second read: EOF, or b)\n", first, second, err)
	if second == a {
		fmt.Println("DEFECT: the iterator yielded the same error twice")
	}
}
