// Minimal demonstration for C03 (keys wgerr/<construct>/abort/other-workers-consume-input):
// without ContinueOnError / ContinueOnPanic a failing user function is meant to abort the whole
// worker group.  The failing worker does stop, but the cancellation that is wired to stop the
// other workers is never triggered: the error filter turns "cannot continue" into io.EOF,
// Processor.ReadAll maps io.EOF to nil, and the observer that would call cancel() only reacts to
// io.EOF - so it never sees one.  The remaining workers consume the whole input.
//
//	go run ./workergroup_abort   (from /verif/fixes/demos)
//
// Pinned tree: every construct processes all 9 items after item 1 failed.
// With fixes/workergroup-abort-cancels.diff: at most the items already in flight.
package main

import (
	"context"
	"errors"
	"fmt"
	"io"
	"sort"
	"sync"
	"time"

	"github.com/tychoish/fun"
	"github.com/tychoish/fun/itertool"
)

var boom = errors.New("boom")

type log struct {
	mu     sync.Mutex
	seen   []int
	failed chan struct{}
}

// visit: item 1 fails as soon as a second worker is busy; every other item waits until the
// failure has been returned to the library (plus a moment for the library to react).
func (l *log) visit(v int) error {
	l.mu.Lock()
	l.seen = append(l.seen, v)
	n := len(l.seen)
	l.mu.Unlock()
	if v == 1 {
		for {
			l.mu.Lock()
			n = len(l.seen)
			l.mu.Unlock()
			if n >= 2 {
				break
			}
			time.Sleep(time.Millisecond)
		}
		close(l.failed)
		return boom
	}
	<-l.failed
	time.Sleep(20 * time.Millisecond)
	return nil
}

func (l *log) report(name string, err error) {
	sort.Ints(l.seen)
	fmt.Printf("%-28s result=%v  errors.Is(boom)=%v  items handed to the user function: %v\n", name, err, errors.Is(err, boom), l.seen)
}

func main() {
	ctx := context.Background()
	items := []int{1, 2, 3, 4, 5, 6, 7, 8, 9}
	two := fun.WorkerGroupConfNumWorkers(2)

	l := &log{failed: make(chan struct{})}
	err := fun.SliceIterator(items).ProcessParallel(func(_ context.Context, v int) error { return l.visit(v) }, two).Run(ctx)
	l.report("Iterator.ProcessParallel", err)

	l = &log{failed: make(chan struct{})}
	err = itertool.ParallelForEach(ctx, fun.SliceIterator(items), func(_ context.Context, v int) error { return l.visit(v) }, two)
	l.report("itertool.ParallelForEach", err)

	l = &log{failed: make(chan struct{})}
	out := fun.Map(fun.SliceIterator(items), func(_ context.Context, v int) (int, error) { return v, l.visit(v) }, two)
	for {
		if _, err := out.ReadOne(ctx); err != nil {
			break
		}
	}
	l.report("fun.Map", out.Close())

	l = &log{failed: make(chan struct{})}
	var mu sync.Mutex
	next := 0
	gen := fun.Producer[int](func(context.Context) (int, error) {
		mu.Lock()
		next++
		v := next
		mu.Unlock()
		if v > len(items) {
			return 0, io.EOF
		}
		return v, l.visit(v)
	}).GenerateParallel(two)
	for {
		if _, err := gen.ReadOne(ctx); err != nil {
			break
		}
	}
	l.report("Producer.GenerateParallel", gen.Close())
}
