// adt.Map.Get: "If the key is not present in the map a default value is created and added to the map."
// adt/map.go:71-78 returns the default to the pool exactly when it was STORED (`if !loaded`): the cleanup hook runs on
// the value that now lives in the map, and the next Get of another missing key stores the very same object.
// go run ./adt_map_get_shares_default   - exit 1 when the divergence is present
package main

import (
	"fmt"
	"os"
	"runtime"
	"strings"

	"github.com/tychoish/fun/adt"
)

func main() {
	runtime.GOMAXPROCS(1) // sync.Pool then hands back what this goroutine put
	m := &adt.Map[string, *strings.Builder]{}
	made, cleaned := 0, 0
	m.Default.SetConstructor(func() *strings.Builder { made++; return &strings.Builder{} })
	m.Default.SetCleanupHook(func(b *strings.Builder) *strings.Builder { cleaned++; b.Reset(); return b })
	a := m.Get("a")
	fmt.Printf("after Get(a): constructed %d, cleanup hook ran %d times (on the value just stored)\n", made, cleaned)
	a.WriteString("belongs to a")
	b := m.Get("b")
	b.WriteString("belongs to b")
	fmt.Printf("Get(a) and Get(b) are the same object: %v; a holds %q\n", a == b, m.Get("a").String())
	if a == b || cleaned > 0 {
		os.Exit(1)
	}
}
