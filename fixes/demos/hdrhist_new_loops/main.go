// Minimal demonstration (found while extending C19 to large magnitudes; not judged by the check, which keeps
// max * 2^t below 2^62): hdrhist.New never returns for shapes at the top of the int64 range.  The bucket-count loop
//
//	for smallestUntrackableValue <= maxValue { smallestUntrackableValue <<= 1; bucketsNeeded++ }
//
// needs a power of two above max: for max >= 2^62 the doubling overflows to a negative number and then to 0, and
// when subBucketCount << unitMagnitude itself overflows (min >= 2^(63 - subBucketCountMagnitude)) it starts at 0.
// go run ./hdrhist_new_loops   (from /verif/fixes/demos; VERIF-independent, uses a 2 s watchdog per shape)
package main

import (
	"fmt"
	"os"
	"time"

	"github.com/tychoish/fun/dt/hdrhist"
)

func main() {
	bad := 0
	for _, sh := range []struct {
		min, max int64
		sf       int
	}{
		{1, 1<<62 - 1, 3},            // the largest max that works
		{1, 1 << 62, 1},              // 2^62 <= max: doubled to 2^63 (negative), then 0, for ever
		{1, 1<<63 - 1, 3},            // math.MaxInt64
		{1000 << 47, 16384 << 47, 3}, // subBucketCount (2048) << unitMagnitude (56) = 2^67 = 0 in int64
		{1 << 50, 1<<62 - 1, 5},      // subBucketCount (2^18) << 50
	} {
		done := make(chan string, 1)
		go func() {
			defer func() {
				if r := recover(); r != nil {
					done <- fmt.Sprint("rejected: ", r)
				}
			}()
			h := hdrhist.New(sh.min, sh.max, sh.sf)
			if err := h.RecordValue(sh.max); err != nil {
				done <- "BROKEN: " + err.Error()
				return
			}
			done <- fmt.Sprintf("ok, ValueAtQuantile(100)=%d after recording max", h.ValueAtQuantile(100))
		}()
		select {
		case s := <-done:
			fmt.Printf("New(%d,%d,%d): %s\n", sh.min, sh.max, sh.sf, s)
		case <-time.After(2 * time.Second):
			fmt.Printf("New(%d,%d,%d): DID NOT RETURN within 2s (spinning in the bucket-count loop)\n", sh.min, sh.max, sh.sf)
			bad++
		}
	}
	if bad > 0 {
		os.Exit(1)
	}
}
