// Documented-vs-actual divergences of srv.Daemon found while building the extra check X03
// (spec/srv/DaemonAbs.tla, DaemonImpl.tla).  Each block prints what the documentation says and what the code does.
//
//	D1 implementations.go:355-358  "All errors encountered, *except* errors that occur after the context has been
//	      canceled *or* that are rooted in context cancellation errors are collected and aggregated to the Daemon
//	      services Wait() response." - when a later base run panics, Run is unwound (line 396-424): the deferred
//	      `re = ec.Resolve()` (398) cannot return a value through the panic, so Wait() reports the panic but none of
//	      the errors collected from earlier runs.                       (fixes/srv-daemon-keep-errors-on-panic.diff)
//	D2 implementations.go:371-375  "if the time between starting the input service and the next loop is less than the
//	      minInterval value, then the Daemon service will wait until at least that interval has passed" -
//	      time.NewTimer(0) (399) fires at once and its tick is never read; with a go.mod below go 1.23 (this library:
//	      go 1.20) timer.Reset does not drain the channel, so the first select (415) takes the stale tick: the FIRST
//	      restart is immediate whatever minInterval is.  (No patch proposed: srv's own TestDaemon/CloseTriggers and
//	      /ShutdownTriggers rely on that immediate first restart.)
//
// No timing decides anything here: D2 uses an interval of one hour and counts base runs after the first one
// returned; the pauses only give goroutines time to settle before the counters are printed.
//
// go run ./srv_daemon_divergences
package main

import (
	"context"
	"errors"
	"fmt"
	"sync/atomic"
	"time"

	"github.com/tychoish/fun/srv"
)

func settle() { time.Sleep(100 * time.Millisecond) }

func main() {
	// ---- D1
	{
		e1 := errors.New("first run failed")
		var n atomic.Int64
		base := &srv.Service{Run: func(context.Context) error {
			if n.Add(1) == 1 {
				return e1
			}
			panic("second run panicked")
		}}
		d := srv.Daemon(base, 0)
		if err := d.Start(context.Background()); err != nil {
			panic(err)
		}
		err := d.Wait()
		fmt.Printf("D1 base runs: %d; Wait() = %v\n", n.Load(), err)
		fmt.Printf("D1 documented: errors.Is(Wait(), e1) = true     actual: %v\n", errors.Is(err, e1))
	}
	// ---- D2
	{
		var n atomic.Int64
		rel := make(chan struct{})
		base := &srv.Service{Run: func(ctx context.Context) error {
			n.Add(1)
			select {
			case <-rel:
			case <-ctx.Done():
			}
			return nil
		}}
		ctx, cancel := context.WithCancel(context.Background())
		d := srv.Daemon(base, time.Hour)
		if err := d.Start(ctx); err != nil {
			panic(err)
		}
		settle()
		rel <- struct{}{} // the first base run returns (early termination)
		settle()
		fmt.Printf("D2 minInterval = 1h, first base run returned: base runs started, documented: 1     actual: %d\n", n.Load())
		cancel()
		_ = d.Wait()
	}
}
