// Minimal demonstration for C13 (keys race/dt.Element.Next+dt.Element.uncheckedAppend,
// race/dt.Map.ProducerKeys.func1+dt.Map.SetDefault, ...): Set.Producer documents "If the Set is
// synchronize, then the Producer always holds the Set's lock when called", but the deferred function
// that wraps the producer in WithLock(mu) discards the result (dt/set.go:197), so the closure - and
// with it Iterator, MarshalJSON, Extend and Equal's view of the other set - walks the list / ranges
// over the map while Add and Delete modify them under the lock.  On an unordered set the runtime may
// also abort the process with "fatal error: concurrent map iteration and map write".
//
//	cd /verif/fixes/demos && go run -race ./race_set_producer            (ordered set)
//	cd /verif/fixes/demos && go run -race ./race_set_producer unordered
package main

import (
	"context"
	"os"
	"sync"

	"github.com/tychoish/fun/dt"
)

func main() {
	ctx := context.Background()
	s := &dt.Set[int]{}
	s.Synchronize()
	if len(os.Args) < 2 {
		s.Order()
	}
	for i := 0; i < 100; i++ {
		s.Add(i)
	}
	var wg sync.WaitGroup
	wg.Add(2)
	go func() {
		defer wg.Done()
		for i := 100; i < 1100; i++ {
			s.Add(i)
		}
	}()
	go func() {
		defer wg.Done()
		p := s.Producer()
		for i := 0; i < 1000; i++ {
			if _, err := p(ctx); err != nil {
				break
			}
		}
	}()
	wg.Wait()
}
