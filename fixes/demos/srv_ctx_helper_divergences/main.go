// Stand-alone demonstration of the three places where the doc comments of the context helpers in
// package srv (srv/context.go) and the code differ.  Prints documented vs actual; exits 0.
//
//	cd /verif/fixes/demos/srv_ctx_helper_divergences && GOFLAGS=-mod=mod go run .
package main

import (
	"context"
	"errors"
	"fmt"

	"github.com/tychoish/fun"
	"github.com/tychoish/fun/srv"
)

// try runs fn and reports how it ended
func try(fn func()) (out string) {
	defer func() {
		if p := recover(); p != nil {
			if err, ok := p.(error); ok && errors.Is(err, fun.ErrInvariantViolation) {
				out = "panic (invariant violation)"
				return
			}
			out = fmt.Sprintf("panic (%v)", p)
		}
	}()
	fn()
	return "returned normally"
}

func state(ctx context.Context) string {
	if ctx.Err() != nil {
		return "cancelled"
	}
	return "live"
}

func main() {
	root, cancel := context.WithCancel(context.Background())
	defer cancel()

	fmt.Println("1. SetShutdownSignal on a context that already has a shutdown signal")
	fmt.Println("   documented (context.go:136-137): \"If a shutdown function is already set on this context, this operation is a noop.\"")
	fmt.Println("              => GetShutdownSignal(inner)() is the first signal: it cancels outer, inner and everything below outer")
	outer := srv.SetShutdownSignal(root)
	sibling, sc := context.WithCancel(outer) // another descendant of outer
	defer sc()
	inner := srv.SetShutdownSignal(outer)
	fmt.Printf("   actual: SetShutdownSignal(outer) returned the same context: %v\n", inner == outer)
	srv.GetShutdownSignal(inner)()
	fmt.Printf("   actual: after GetShutdownSignal(inner)(): inner is %s, outer is %s, a sibling below outer is %s\n", state(inner), state(outer), state(sibling))
	fmt.Println("           (the second call derived a new cancellable child whose CancelFunc shadows the first)")
	srv.GetShutdownSignal(outer)()

	fmt.Println("2. SetBaseContext on a context that already has a base context")
	fmt.Println("   documented (context.go:173-174): \"If a base context is already set on this context, this operation panics with an invariant violation.\"")
	b1 := srv.SetBaseContext(root)
	child, cc := context.WithCancel(b1)
	defer cc()
	var b2 context.Context
	fmt.Printf("   actual: second SetBaseContext %s\n", try(func() { b2 = srv.SetBaseContext(child) }))
	if b2 != nil {
		fmt.Printf("   actual: GetBaseContext below the second call returns the second base (== child: %v, == root: %v)\n",
			srv.GetBaseContext(b2) == child, srv.GetBaseContext(b2) == root)
	}

	fmt.Println("3. WithOrchestrator / SetOrchestrator on a context that already has an orchestrator")
	fmt.Println("   documented (context.go:52-53, 60-61): \"If an Orchestrator is already set on the context, this operation panics with an invariant violation.\"")
	octx, ocancel := context.WithCancel(root)
	o1 := srv.WithOrchestrator(octx)
	var o2, o3 context.Context
	fmt.Printf("   actual: second WithOrchestrator %s\n", try(func() { o2 = srv.WithOrchestrator(o1) }))
	fmt.Printf("   actual: SetOrchestrator with a fresh orchestrator on top %s\n", try(func() { o3 = srv.SetOrchestrator(o1, &srv.Orchestrator{}) }))
	if o2 != nil {
		first, second := srv.GetOrchestrator(o1), srv.GetOrchestrator(o2)
		fmt.Printf("   actual: a different orchestrator shadows the first: %v; both services run: %v / %v\n",
			first != second, first.Service().Running(), second.Service().Running())
	}
	ocancel()
	for _, c := range []context.Context{o1, o2, o3} {
		if c != nil {
			_ = srv.GetOrchestrator(c).Service().Wait()
		}
	}
	fmt.Println("done: 3 divergences between documentation and code shown (the extra check X03 accepts both readings and reports them)")
}
