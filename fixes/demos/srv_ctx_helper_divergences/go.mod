module demo

go 1.20

require github.com/tychoish/fun v0.0.0

replace github.com/tychoish/fun => /repo
