// Minimal demonstration for C03 (key wgerr/gen/abort/other-workers-consume-input/after-panicW_EOF):
// GenerateParallel in abort mode (no ContinueOnPanic).  A generator that PANICS with a value that is or
// wraps io.EOF is reported (ErrRecoveredPanic) and its worker stops, but the group is not cancelled:
// the "unless the generator is just done" exemption of the abort is tested with
// errors.Is(err, io.EOF), which also holds for the recovered panic.  The other worker goes on
// generating the rest of the input.
//
//	go run ./generate_abort_panic_eof   (from /verif/fixes/demos)
//
// As committed (4f757ff): all 9 calls are made.  With fixes/generate-abort-on-eof-valued-panic.diff: 2.
package main

import (
	"context"
	"errors"
	"fmt"
	"io"
	"sync"
	"time"

	"github.com/tychoish/fun"
)

func main() {
	ctx := context.Background()
	var mu sync.Mutex
	var seen []int
	failed := make(chan struct{})
	next := 0
	gen := fun.Producer[int](func(context.Context) (int, error) {
		mu.Lock()
		next++
		v := next
		if v <= 9 {
			seen = append(seen, v)
		}
		mu.Unlock()
		if v > 9 {
			return 0, io.EOF // the regular end
		}
		if v == 1 {
			for {
				mu.Lock()
				n := len(seen)
				mu.Unlock()
				if n >= 2 {
					break
				}
				time.Sleep(time.Millisecond)
			}
			close(failed)
			panic(fmt.Errorf("short read: %w", io.EOF))
		}
		<-failed
		time.Sleep(20 * time.Millisecond)
		return v, nil
	}).GenerateParallel(fun.WorkerGroupConfNumWorkers(2))
	for {
		if _, err := gen.ReadOne(ctx); err != nil {
			break
		}
	}
	err := gen.Close()
	fmt.Printf("Close()=%v  errors.Is(ErrRecoveredPanic)=%v  generator calls made: %v\n", err, errors.Is(err, fun.ErrRecoveredPanic), seen)
}
