// adt.Once: "Do runs the function provided, and caches the results."  Do(f) racing Set(g) executes g:
// Do stores f in the shared constructor cell (adt/atomics.go:67) and populate reads the cell again (:74); a Set that
// tested Called() before populate set it (:81) overwrites the cell in between.  No sequential order of Do(f) and
// Set(g) runs g.  The window is three atomic stores wide, so this demonstration repeats the duel.
// go run ./adt_once_do_runs_set_function   - exit 1 when a run of g under Do(f) was seen
package main

import (
	"fmt"
	"os"
	"runtime"
	"sync"
	"sync/atomic"

	"github.com/tychoish/fun/adt"
)

func main() {
	runtime.GOMAXPROCS(4)
	ran := map[int]int{}
	for i := 0; i < 3_000_000 && ran[2] < 3; i++ {
		o := &adt.Once[int]{}
		var ready atomic.Int32
		var wg sync.WaitGroup
		meet := func() {
			ready.Add(1)
			for ready.Load() < 2 {
			}
		}
		wg.Add(2)
		go func() { defer wg.Done(); meet(); o.Do(func() int { return 1 }) }()
		go func() { defer wg.Done(); meet(); o.Set(func() int { return 2 }) }()
		wg.Wait()
		ran[o.Resolve()]++
	}
	fmt.Printf("Do(f1) || Set(f2): f1 ran %d times, f2 ran %d times\n", ran[1], ran[2])
	if ran[2] > 0 {
		os.Exit(1)
	}
}
