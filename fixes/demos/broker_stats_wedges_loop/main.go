// Minimal demonstration for C09 (keys broker/progress/publish-blocked@event-loop-stuck-in-stats-reply,
// broker/shutdown/goroutine-left@..., broker/shutdown/wait-blocked@...): Stats hands the event loop a
// callback that does `signal <- stats` on an unbuffered channel with no context.  A Stats caller whose
// context has ended may still win the first select (the callback is accepted) and then leave through
// ctx.Done in the second: the event loop stays blocked in the callback for ever.  From then on every
// Publish blocks although all subscribers receive, and after Stop the event-loop goroutine never exits,
// so Wait never returns.
// go run ./broker_stats_wedges_loop   (from /verif/fixes/demos; repaired by fixes/broker-stats-abandoned-reply.diff)
package main

import (
	"context"
	"fmt"
	"sync/atomic"
	"time"

	"github.com/tychoish/fun/pubsub"
)

func main() {
	ctx := context.Background()
	b := pubsub.NewBroker[string](ctx, pubsub.BrokerOptions{})
	ch := b.Subscribe(ctx)
	go func() {
		for range ch {
		}
	}()
	dead, cancel := context.WithCancel(ctx)
	cancel()
	for i := 0; i < 64; i++ { // each call wedges the loop with probability about 1/4 (two random selects)
		b.Stats(dead)
	}
	var published, waited atomic.Bool
	go func() { b.Publish(ctx, "hello"); published.Store(true) }()
	time.Sleep(300 * time.Millisecond)
	fmt.Printf("Publish with a live context and a receiving subscriber returned=%v (expected true)\n", published.Load())
	b.Stop()
	wctx, wcancel := context.WithTimeout(ctx, 500*time.Millisecond)
	defer wcancel()
	go func() { b.Wait(wctx); waited.Store(wctx.Err() == nil) }()
	time.Sleep(700 * time.Millisecond)
	fmt.Printf("Wait after Stop returned before its own timeout=%v (expected true)\n", waited.Load())
}
